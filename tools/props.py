"""Per-property configuration: which units (Verus templates, lemma files, Kani harness groups)
generate the obligations that decide each property."""
import verus_track as vt

IO = vt.VerusUnit('io', 'io.rs')


def verus(unit, modules):
    def f(prop, tier, res):
        return vt.evaluate(unit, prop, res, modules=modules)
    f.__name__ = 'verus:%s' % unit.name
    return f


STD_ASSUME = [
    'Verus 0.2026.09.13 / Z3 are sound; the extraction rules X1-X8 (DESIGN 2.1) preserve meaning',
    'machine arithmetic: usize is 64-bit; no object is larger than isize::MAX bytes',
]
BUFWRITER = 'std::io::BufWriter behaves as modelled in contracts/io.rs (model::BufWriter, written from the std source; all-or-nothing datagram writer underneath)'

PROPS = {
    'C05': dict(level='proof', units=lambda tier: [verus(IO, ['frame', 'spec', 'model'])],
                explanation='Unbounded deductive proof (Verus) on the bodies of MultiLineWriter::{new,with_ending,write,flush} extracted verbatim from /repo on this run: every datagram appended to the ghost socket log satisfies dgram_ok for all capacities, terminators, metric lengths and pre-states satisfying the representation invariant.',
                assumptions=STD_ASSUME + [BUFWRITER, 'inner writer is a datagram writer (each write accepts all of buf or fails)', 'envelope: non-empty terminator; the case (empty metric AND terminator length == capacity) is excluded']),
    'C06': dict(level='proof', units=lambda tier: [verus(IO, ['frame', 'spec', 'model'])],
                explanation='Unbounded deductive proof (Verus) of the conservation postconditions of write/flush on the abstract view (pending chunk list, wire log).',
                assumptions=STD_ASSUME + [BUFWRITER]),
    'C07': dict(level='proof', units=lambda tier: [verus(IO, ['frame', 'spec', 'model'])],
                explanation='Unbounded deductive proof (Verus) of the error-exit postconditions of write/flush: an Err result is the socket error, leaves pending and wire unchanged.',
                assumptions=STD_ASSUME + [BUFWRITER]),
    'C19': dict(level='proof', units=lambda tier: [verus(IO, ['greedy', 'spec', 'model'])],
                explanation='Unbounded deductive proof (Verus) of the socket-activity postconditions (attempt counter of the socket model) under the exact-accounting invariant.',
                assumptions=STD_ASSUME + [BUFWRITER]),
}

NOT_APPLICABLE = {}
HOOK_COMMITS = []
