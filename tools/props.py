"""Per-property configuration: which units (Verus templates, lemma files, Kani harness groups)
generate the obligations that decide each property."""
import verus_track as vt
import kani_track as kt

IO = vt.VerusUnit('io', 'io.rs')
BUILDER = vt.VerusUnit('builder', 'builder.rs')


def verus(unit, modules):
    def f(prop, tier, res):
        return vt.evaluate(unit, prop, res, modules=modules)
    f.__name__ = 'verus:%s' % unit.name
    return f


def kani(groups):
    def f(prop, tier, res):
        return kt.evaluate(groups, prop, tier, res)
    f.__name__ = 'kani:%s' % '+'.join(groups)
    return f


KANI_ASSUME = [
    'Kani 0.68 / CBMC 6.11 / CaDiCaL+kissat are sound; Kani compiles with panic=abort (unwinding is never executed)',
    'harness weaving K1-K4 (DESIGN 2.2) does not change the code under test',
]

STD_ASSUME = [
    'Verus 0.2026.09.13 / Z3 are sound; the extraction rules X1-X8 (DESIGN 2.1) preserve meaning',
    'machine arithmetic: usize is 64-bit; no object is larger than isize::MAX bytes',
]
BUFWRITER = 'std::io::BufWriter behaves as modelled in contracts/io.rs (model::BufWriter, written from the std source; all-or-nothing datagram writer underneath)'

PROPS = {
    'C05': dict(level='proof', units=lambda tier: [verus(IO, ['frame', 'spec', 'model'])],
                explanation='Unbounded deductive proof (Verus) on the bodies of MultiLineWriter::{new,with_ending,write,flush} extracted verbatim from /repo on this run: every datagram appended to the ghost socket log satisfies dgram_ok for all capacities, terminators, metric lengths and pre-states satisfying the representation invariant.',
                assumptions=STD_ASSUME + [BUFWRITER, 'inner writer is a datagram writer (each write accepts all of buf or fails)', 'envelope: non-empty terminator; the case (empty metric AND terminator length == capacity) is excluded']),
    'C06': dict(level='proof', units=lambda tier: [verus(IO, ['frame', 'spec', 'model'])],
                explanation='Unbounded deductive proof (Verus) of the conservation postconditions of write/flush on the abstract view (pending chunk list, wire log).',
                assumptions=STD_ASSUME + [BUFWRITER]),
    'C07': dict(level='proof', units=lambda tier: [verus(IO, ['frame', 'spec', 'model'])],
                explanation='Unbounded deductive proof (Verus) of the error-exit postconditions of write/flush: an Err result is the socket error, leaves pending and wire unchanged.',
                assumptions=STD_ASSUME + [BUFWRITER]),
    'C01': dict(level='other', engine='verus+kani', units=lambda tier: [verus(BUILDER, ['code', 'spec', 'model']), kani(['client_conv', 'types_err', 'client_c03', 'builder_c04', 'client_builder', 'builder_ctor'])],
                technique='contract-based deductive verification: Verus postconditions against a spec function line(f) on the formatter extracted from /repo each run; Kani Hoare triples on the real client/constructor plumbing with format replaced by its contract',
                explanation='Verus (unbounded): the extracted bodies of format, write_base_metric, write_sampling_rate, write_tags, write_container_id, write_timestamp, write_value, both Display impls, from_val and the seven kind constructors, with_tag/.. are proved against line(f) = name:values|type[|@rate][|#tags][|c:id][|Ttimestamp] for all field values (numeric renderings uninterpreted = std Display, trusted). Kani: every client entry point builds the formatter of the kind called with the client prefix, the key and the converted value (structure triples, bounded in tag count), hands the sink exactly the formatted text (C03 triples), standalone constructors build the same formatter (complete), formatted_prefix on enumerated prefixes (bounded), accepted packed lists are non-empty (complete). The parse-back (round-trip) sentence is NOT machine-checked in this revision: it is a property of line() alone and is argued in DESIGN.md; level is therefore "other", not "proof".',
                assumptions=KANI_ASSUME + STD_ASSUME + ['std Display for i64/u64/f64/&str appends the canonical numeral / the string (uninterpreted dec_* functions); write! appends its pieces in order (rule X3); String: fmt::Write is infallible', 'parse(line(f)) == f for delimiter-free fields is not machine-checked']),
    'C02': dict(level='other', engine='kani', units=lambda tier: [kani(['client_conv'])],
                technique='contract-based verification: Hoare triples on the real To*Value::try_to_value impls, discharged by Kani/CBMC over full input domains (Vec<Duration> lists bounded)',
                explanation='Kani contracts on the 22 real conversion impls in cadence/src/client.rs: scalar integers and floats over the whole type range (loop-free => complete), packed u64/f64 lists by buffer identity for every (len, capacity), Duration->ms/ns over all (secs, nanos) against 128-bit reference arithmetic (complete). Vec<Duration> impls are BOUNDED (list length 1..2 quick, 1..3 thorough) and listed under bounded_checks. The decimal rendering of the numbers (std Display) is trusted, not verified; rendering order of packed lists is the Verus obligation of C01 (write_value).',
                assumptions=KANI_ASSUME + ['std integer/float Display produce the canonical numeral that parses back to the identical value (std contract, not verified)']),
    'C03': dict(level='other', engine='kani', units=lambda tier: [kani(['types_err', 'client_c03'])],
                technique='contract-based verification: Kani Hoare triples on the real try_send/send/send_metric/consume_error/MetricError for every entry point, callee MetricFormatter::format replaced by its contract (stub)',
                explanation='For each (kind x value type) entry point (one value type per kind in the quick tier, all 23 in thorough) and incr/decr: a triple on the real plain form and on the real tagged+quiet form with a scripted sink whose outcome per call is symbolic (accept / refuse with one of 5 io::ErrorKinds incl. Interrupted) and with symbolic values over the whole type range. Obligations: exactly one sink call for a valid value (text handed over is pointer-identical to the returned metric), zero for a rejected one; Ok iff accepted; IoError carrying the sink error; InvalidInput for rejected values; handler exactly once iff failure. Two consecutive calls with independent outcomes per harness. Loop-free once format is a stub => complete per entry point; "for all sequences" follows because the client has no mutable state (each triple starts from an arbitrary client value). MetricError contracts proved separately in types.rs.',
                assumptions=KANI_ASSUME + ['MetricFormatter::format returns some string (its real contract is C01, Verus); its result is not inspected here']),
    'C04': dict(level='other', engine='verus+kani', units=lambda tier: [kani(['types_err', 'client_c03', 'builder_c04']), verus(BUILDER, ['code', 'spec', 'model'])],
                technique='contract-based verification: Kani structure-level Hoare triples on the seven real *_with_tags impls and MetricBuilder methods (one harness per tag count), Verus contracts on the formatter for append order and rendering order',
                explanation='Kani triples (harness inside builder.rs, reading the formatter directly): for each of the seven kinds the formatter built by the real client method carries exactly the client default tags, in configured order (pointer identity, key:value or bare chosen symbolically), and the default container id; per-call with_tag/with_tag_value land after them in call order; a per-call container id replaces the default and the client is untouched; incr/decr likewise. BOUNDED in the number of tags (0..3 defaults, 2 per-call), parametric in tag content. Verus (unbounded): MetricFormatter::with_tag/with_tag_value append at the end and touch nothing else; write_tags renders tags in vector order; format puts the container section after the tags.',
                assumptions=KANI_ASSUME + STD_ASSUME),
    'C13': dict(level='other', engine='verus+kani', units=lambda tier: [kani(['core_stats', 'io_helpers', 'udp_sinks', 'unix_sinks']), verus(IO, ['frame', 'spec', 'model'])],
                technique='contract-based verification: Kani Hoare triples on the real UDP/Unix sinks and adapters with send_to replaced by a recording contract stub; Verus proof of the line writer constructors',
                explanation='Kani triples on the real UdpMetricSink/UnixMetricSink::emit, Udp/UnixWriteAdapter::write+flush and the four buffered constructors (send_to replaced by a recording stub with an arbitrary Ok(n)/Err(kind) answer): exactly one send_to per call, payload pointer- and length-identical to the metric, destination equal to the configured address/path, result passed through unchanged. Metric length is symbolic 0..=64 (the code never reads the bytes) => listed as bounded. The datagram form of the buffered sinks is C05 (Verus); here the constructors are shown to configure capacity (512 default) and a single newline.',
                assumptions=KANI_ASSUME + STD_ASSUME + ['the kernel delivers what send_to was given (outside any contract)', 'Path::canonicalize and other file-system queries answer arbitrarily (stub)']),
    'C14': dict(level='other', engine='kani', units=lambda tier: [kani(['core_stats', 'io_helpers', 'udp_sinks', 'unix_sinks'])],
                technique='contract-based verification: Kani function contracts (Hoare triples) on SocketStats::update and on every send_to call site',
                explanation='SocketStats::update is verified over its full domain (any prior counters below 2^63, any Ok(w)/Err(kind), any len): complete, loop-free. Every send_to in udp.rs/unix.rs is shown to be wrapped by update with the buffer length (sink triples, buffer length symbolic 0..=64 => bounded list), and the adapter shares the sink counters (Arc identity). The lift to "at any quiescent moment, under concurrent emitters" is the commutativity of atomic fetch_add, which is assumed (atomicity of RMW), not explored.',
                assumptions=KANI_ASSUME + ['atomic fetch_add is atomic; additions commute, so totals are schedule-independent (not machine-checked)', 'counters stay below 2^64 (they wrap silently by definition)']),
    'C18': dict(level='other', engine='kani', units=lambda tier: [kani(['state_c18'])],
                technique='contract-based verification: rely/guarantee contracts on the atomic and cell primitives (cfg-guarded shim with ghost protocol state), each real SingletonHolder method proved by Kani under arbitrary interference',
                explanation='Each of the three real methods (get, is_set, set) is loop-free and is verified by Kani for EVERY interference pattern allowed by the protocol (other threads may elect themselves / publish before each of my atomic operations). The shim asserts the guarantee on every primitive operation: election only by compare_exchange(UNSET->LOADING) with at least Acquire, the single plain store publishes COMPLETE with at least Release after the cell was written by the elected writer, the cell is touched only by the elected writer before publication or after an Acquire load that observed COMPLETE. Functional postconditions: first set wins, later sets change nothing, reads report not-set until completion, every get returns the same instance. From these, "every read happens-after the initialising write" follows by thread-modular (rely/guarantee) reasoning plus the C11 rule that an acquire load reading from a release store synchronises-with it: that meta-argument is TRUSTED, no interleaving or weak-memory execution is explored.',
                assumptions=KANI_ASSUME + ['soundness of rely/guarantee reasoning; C11 release/acquire gives happens-before (trusted, not machine-checked)', 'hook H1: the pass-through shim forwards every operation unchanged to std']),
    'C19': dict(level='proof', units=lambda tier: [verus(IO, ['greedy', 'spec', 'model'])],
                explanation='Unbounded deductive proof (Verus) of the socket-activity postconditions (attempt counter of the socket model) under the exact-accounting invariant.',
                assumptions=STD_ASSUME + [BUFWRITER]),
}

NOT_APPLICABLE = {}
HOOK_COMMITS = ['7b4bfc6', '24da86b']
