"""Verus track: expand a template against the current /repo, run Verus once (real functions +
vacuity twins), classify every diagnostic."""
import json
import os
import re
import sys

sys.path.insert(0, os.path.dirname(os.path.abspath(__file__)))
import extract  # noqa: E402
from common import run, scratch_dir, REPO, VERIF  # noqa: E402

TWIN = '__vacuity'
VERUS_TIMEOUT = int(os.environ.get('VERIF_VERUS_TIMEOUT', '600'))

ARITH_RE = re.compile(r'arithmetic underflow/overflow|division by zero|possible overflow|bit shift|index out of bounds|slice index')
KIND = [
    (re.compile(r'^postcondition not satisfied'), 'post'),
    (re.compile(r'^precondition not satisfied'), 'pre'),
    (re.compile(r'invariant not satisfied'), 'inv'),
    (re.compile(r'^assertion failed'), 'assert'),
    (ARITH_RE, 'arith'),
    (re.compile(r'decreases not satisfied|termination'), 'term'),
    (re.compile(r'[Rr]esource limit|rlimit'), 'rlimit'),
]


def classify(msg):
    for rx, k in KIND:
        if rx.search(msg):
            return k
    return 'other'


class VerusUnit:
    def __init__(self, name, template):
        self.name = name
        self.template = os.path.join(VERIF, 'contracts', template)
        self.ran = False

    def expand(self, drop_lines=None, tag=''):
        d = scratch_dir('verus')
        text, meta = extract.expand(self.template, REPO, TWIN)
        if drop_lines:
            lines = text.split('\n')
            for ln in drop_lines:
                lines[ln - 1] = '// (dropped helper clause) ' + lines[ln - 1].strip()
            text = '\n'.join(lines)
        # module of each line (convention: `pub mod X {` ... `} // mod X`)
        mod_at = []
        cur = []
        for ln in text.split('\n'):
            m = re.match(r'\s*pub mod (\w+)\s*\{', ln)
            if m and ln.count('{') > ln.count('}'):
                cur.append(m.group(1))
            mod_at.append(cur[-1] if cur else '')
            m2 = re.match(r'\s*\}\s*//\s*mod (\w+)', ln)
            if m2 and cur:
                cur.pop()
        path = os.path.join(d, self.name + tag + '.rs')
        open(path, 'w').write(text)
        return path, text, meta, mod_at

    def execute(self, drop_lines=None):
        """returns dict(tool_failure, functions, clauses, errors, twins, trusted, cmd, wall_s)"""
        try:
            path, text, meta, mod_at = self.expand(drop_lines)
        except extract.ExtractError as e:
            return dict(tool_failure='extract: ' + str(e))
        cmd = ['verus', os.path.basename(path), '--multiple-errors', '50', '--output-json', '--time-expanded', '--error-format=json']
        rc, out, err, wall = run(cmd, cwd=os.path.dirname(path), timeout=VERUS_TIMEOUT)
        if rc == -9:
            return dict(tool_failure='verus timeout after %ds' % VERUS_TIMEOUT)
        lines = text.split('\n')
        diags = []
        for ln in err.split('\n'):
            ln = ln.strip()
            if ln.startswith('{'):
                try:
                    diags.append(json.loads(ln))
                except ValueError:
                    pass
        try:
            js = json.loads(out)
        except ValueError:
            js = None
        errors_raw = [d for d in diags if d.get('level') == 'error' and d.get('spans')]
        if js is None or js.get('verification-results', {}).get('encountered-vir-error') or \
                (js and not js['verification-results'].get('success') and not errors_raw):
            msg = '\n'.join(d.get('rendered', '') for d in diags if d.get('level') == 'error')[:4000]
            return dict(tool_failure='verus could not process the extracted file (front-end error):\n' + (msg or err[:2000]))
        # rustc (type / borrow) errors: no verification results at all
        vr = js['verification-results']
        if vr.get('encountered-error') and vr.get('verified', 0) == 0 and vr.get('errors', 0) == 0:
            msg = '\n'.join(d.get('rendered', '') for d in diags if d.get('level') == 'error')[:4000]
            return dict(tool_failure='rustc rejected the extracted file:\n' + msg)

        fns = meta['functions']
        labels = meta['labels']
        probes = meta.get('probes', [])

        def fn_at(line):
            for f in fns:
                if f['out_start'] <= line <= f['out_end']:
                    return f
            return None

        def enclosing_named_fn(line):
            for k in range(line - 1, -1, -1):
                m = re.search(r'\b(?:proof\s+|spec\s+|exec\s+)?fn\s+(\w+)', lines[k])
                if m:
                    return m.group(1)
            return '?'

        errors = []
        probe_hits = {p['name']: 0 for p in probes}
        def all_lines(sp):
            """line of a span and of every macro invocation site it was expanded from"""
            res = [sp['line_start']]
            ex = sp.get('expansion')
            while ex and ex.get('span'):
                res.append(ex['span']['line_start'])
                ex = ex['span'].get('expansion')
            return res

        for d in errors_raw:
            in_probe = None
            for s2 in d['spans']:
                for ln_ in all_lines(s2):
                    for p in probes:
                        if p['out_start'] <= ln_ <= p['out_end']:
                            in_probe = p
            if in_probe is not None:
                probe_hits[in_probe['name']] += 1
                continue
            prim = [s for s in d['spans'] if s.get('is_primary')] or d['spans']
            sp = prim[0]
            kind = classify(d['message'])
            f = fn_at(sp['line_start'])
            # for precondition failures the primary span is the callee's requires clause; the call
            # site is a secondary span -- use it to find the function being verified
            if kind == 'pre' or f is None:
                for s2 in d['spans']:
                    f2 = fn_at(s2['line_start'])
                    if f2 is not None and not s2.get('is_primary'):
                        f = f2
            lab = [l for l in labels if sp['line_start'] <= l['line'] <= sp['line_end']]
            if kind == 'pre':
                # the violated requires-clause is a secondary span: its label names the obligation
                for s2 in d['spans']:
                    lab += [l for l in labels if s2['line_start'] <= l['line'] <= s2['line_end'] and l not in lab]
            props = sorted(set(p for l in lab for p in l['props']))
            src = '\n'.join(lines[sp['line_start'] - 1:sp['line_end']])
            helper = bool(re.search(r'//\s*\(helper', src))
            site = sp['line_start']
            if f is None:
                # innermost user function: the outermost macro invocation site among all spans
                cands = [l for s2 in d['spans'] for l in all_lines(s2)]
                site = max(cands) if cands else site
            errors.append(dict(
                message=d['message'], kind=kind, line=sp['line_start'], line_end=sp['line_end'],
                fn=(f['name'] if f else enclosing_named_fn(site)), extracted=bool(f), twin=bool(f and f['twin']),
                module=mod_at[sp['line_start'] - 1], props=props, helper=helper,
                label_text='; '.join(l['text'] for l in lab), clause=re.sub(r'\s+', ' ', src.strip())[:400],
                rendered=d.get('rendered', '')[:3000],
                repo_file=(f['file'] if f else None), repo_line=(f['line'] if f else None)))

        # per function timing / success from the breakdown
        times = {}
        for m in js.get('times-ms', {}).get('smt', {}).get('smt-run-module-times', []):
            for fb in m.get('function-breakdown', []):
                times[fb['function'].split('::', 1)[1] if '::' in fb['function'] else fb['function']] = fb
        functions = []
        for f in fns:
            mod = mod_at[f['out_start'] - 1]
            key = [k for k in times if k.startswith(mod + '::') and k.endswith('::' + f['name'])] if mod else [k for k in times if k.endswith('::' + f['name']) or k == f['name']]
            fb = times.get(key[0]) if key else None
            ferrs = [e for e in errors if e['fn'] == f['name'] and e['module'] == mod and e['extracted']]
            functions.append(dict(name=f['name'], orig=f['orig'], twin=f['twin'], module=mod, file=f['file'], line=f['line'],
                                  verified=(not ferrs) and (fb is None or fb.get('success', True)), time_ms=(fb or {}).get('time'),
                                  rlimit=(fb or {}).get('rlimit'), has_breakdown=fb is not None))
        # lemma / spec functions that are not extracted code (template-only proof functions)
        extracted_names = set((f['module'], f['name']) for f in functions)
        lemmas = []
        for k, fb in times.items():
            parts = k.split('::')
            mod = parts[0] if len(parts) > 1 else ''
            if (mod, parts[-1]) in extracted_names or parts[-1] in [p_.get('fn') for p_ in probes]:
                continue
            lemmas.append(dict(name=k, module=mod, mode=fb.get('mode:'), verified=fb.get('success', False), time_ms=fb.get('time')))
        clauses = []
        for l in labels:
            f = fn_at(l['line'])
            if f is not None and f['twin']:
                continue
            failed = any(e['line'] <= l['line'] <= e['line_end'] for e in errors)
            if f is None and not l.get('fn'):
                nm = enclosing_named_fn(l['line'] + 1)
                failed = failed or any((not e['extracted']) and e['fn'] == nm for e in errors)
            clauses.append(dict(fn=(f['name'] if f else (l.get('fn') or enclosing_named_fn(l['line'] + 1))), module=mod_at[l['line'] - 1], props=l['props'], text=l['text'], line=l['line'], failed=failed,
                                repo_file=(f['file'] if f else None), repo_line=(f['line'] if f else None)))
        trusted = []
        cur_impl = ''
        for i, ln in enumerate(lines):
            mi = re.match(r'\s*(?:pub\s+)?(?:impl(?:<[^>]*>)?\s+([^{]+?)\s*\{|trait\s+(\w+))', ln)
            if mi and not ln.strip().startswith('//'):
                cur_impl = re.sub(r'\s+', ' ', (mi.group(1) or mi.group(2) or '')).strip()
            if ln.strip().startswith('//'):
                continue
            kind = None
            if 'external_body' in ln:
                kind = 'external_body (trusted contract, body not verified)'
            elif 'assume_specification' in ln:
                kind = 'assume_specification (trusted contract of a std function)'
            elif re.search(r'\buninterp spec fn\b', ln):
                kind = 'uninterpreted spec function'
            elif re.search(r'\badmit\(|\bassume\(', ln):
                kind = 'ASSUME/ADMIT in proof'
            elif re.search(r'global size_of', ln):
                kind = 'layout assumption'
            if not kind:
                continue
            nm = None
            for k in range(i, min(i + 4, len(lines))):
                m = re.search(r'(?:\bfn\s+(\w+)|assume_specification[^\[]*\[\s*([^\]]+?)\s*\]|global size_of (\w+ == \d+))', lines[k])
                if m:
                    nm = m.group(1) or m.group(2) or m.group(3)
                    break
            owner = (cur_impl + '::') if (cur_impl and 'fn' in ln or (nm and kind.startswith('external_body'))) and cur_impl else ''
            trusted.append('%s: %s%s -- %s' % (self.name, owner, nm or ln.strip()[:80], kind))
        return dict(tool_failure=None, functions=functions, clauses=clauses, errors=errors, lemmas=lemmas, trusted=sorted(set(trusted)),
                    cmd='verus <extracted %s> --multiple-errors 50 --output-json --time-expanded' % os.path.basename(self.template),
                    wall_s=wall, rules=meta['rules'], rewrites=meta['rewrites'], items=meta['items'], path=path,
                    verified=vr.get('verified'), nerrors=vr.get('errors'), probes=probe_hits)


def evaluate(unit, prop, res, modules=None, arith_prop='C20', extra_props_for_unlabelled=()):
    """Run the unit and fold its outcome for property `prop` into `res`.
    returns list of violation dicts (obligation name, detail)."""
    out = unit.execute()
    if out.get('tool_failure'):
        res.undecide('%s: %s' % (unit.name, out['tool_failure']))
        return []
    res.checker_cmds.append(out['cmd'])
    res.trusted.extend(out['trusted'])
    res.notes.setdefault('rewrite_rules_applied', {})[unit.name] = out['rules']

    def relevant_module(m):
        return modules is None or m in modules

    soft = []

    def analyse(out):
        viol, unl = [], []
        del soft[:]
        for e in out['errors']:
            if e['twin'] or not relevant_module(e['module']):
                continue
            if e['kind'] == 'rlimit':
                unl.append(e)
            elif prop in e['props']:
                viol.append(e)
            elif (prop + '?') in e['props']:
                # soft label: this clause belongs to another property; it counts for `prop` only if the
                # concrete search of the real code finds an input violating `prop`
                soft.append(e)
            elif prop == arith_prop and e['kind'] == 'arith':
                viol.append(e)
            elif e['kind'] == 'arith':
                # an arithmetic obligation belongs to C20; for other properties it only matters as
                # an undischarged side condition of the same function
                unl.append(e)
            elif e['props']:
                # labelled for other properties only: not this property's obligation
                continue
            elif prop == arith_prop and e['kind'] == 'post':
                # C20 is the union of the arithmetic / index / unwrap obligations: a failed functional
                # postcondition (helper or unlabelled) does not bear on it
                continue
            else:
                unl.append(e)
        return viol, unl

    viol, unl = analyse(out)
    dropped = []
    if not viol and unl and all(e['helper'] for e in unl):
        # Sound retry: delete the failed helper ensures-clauses (callers may then assume less,
        # the callee no longer has to establish them) and verify again.
        lines = sorted(set(l for e in unl for l in range(e['line'], e['line_end'] + 1)))
        out2 = unit.execute(drop_lines=lines)
        if not out2.get('tool_failure'):
            v2, u2 = analyse(out2)
            dropped = [e['clause'] for e in unl]
            out, viol, unl = out2, v2, u2
            res.notes.setdefault('helper_clauses_dropped_and_reverified', []).extend(dropped)
    # vacuity twins
    twins = [f for f in out['functions'] if f['twin'] and relevant_module(f['module'])]
    bad_twins = [f for f in twins if f['verified']]
    res.notes.setdefault('vacuity_probes', {})[unit.name] = dict(twins=len(twins), failed_as_required=len(twins) - len(bad_twins))
    ph = out.get('probes') or {}
    if ph:
        res.notes['vacuity_probes'][unit.name].update(must_fail_probes=len(ph), failed_as_required_probes=len([k for k, v in ph.items() if v > 0]))
        for k, v in ph.items():
            if v == 0:
                res.undecide('%s: must-fail probe %s verified (vacuous contract or insensitive obligation)' % (unit.name, k))
    for f in bad_twins:
        res.undecide('%s: vacuity twin of %s::%s verified `ensures false` (contradictory precondition or model axiom)' % (unit.name, f['module'], f['orig']))
    # obligations
    for f in out['functions']:
        if f['twin'] or not relevant_module(f['module']):
            continue
        res.functions.append(dict(name='%s::%s' % (f['module'], f['orig']), file='%s:%d' % (f['file'], f['line']), track='verus'))
    nclauses = 0
    for c in out['clauses']:
        if not relevant_module(c['module']) or (prop not in c['props'] and (prop + '?') not in c['props']):
            continue
        nclauses += 1
        fn = next((f for f in out['functions'] if f['name'] == c['fn'] and f['module'] == c['module']), None)
        failed = c['failed']
        res.add('%s::%s: %s' % (c['module'], c['fn'], c['text']), unit.name, 'verus/z3', 'failed' if failed else 'discharged',
                time_ms=(fn or {}).get('time_ms'))
    if prop == arith_prop:
        for f in out['functions']:
            if f['twin'] or not relevant_module(f['module']):
                continue
            bad = [e for e in viol if e['fn'] == f['name'] and e['module'] == f['module'] and e['kind'] == 'arith']
            res.add('%s::%s: no arithmetic overflow/underflow, index or unwrap failure on any path' % (f['module'], f['orig']), unit.name, 'verus/z3',
                    'failed' if bad else 'discharged', time_ms=f['time_ms'])
            nclauses += 1
    for l in out.get('lemmas', []):
        if l['mode'] == 'proof' and relevant_module(l['module']):
            res.add('lemma %s' % l['name'], unit.name, 'verus/z3', 'discharged' if l['verified'] else 'failed', time_ms=l['time_ms'])
            if not l['verified']:
                res.undecide('%s: template lemma %s no longer verifies' % (unit.name, l['name']))
    if nclauses == 0:
        res.undecide('%s: no obligation of %s was generated (vacuity guard)' % (unit.name, prop))
    for e in unl:
        res.undecide('%s: %s::%s: %s [%s] %s' % (unit.name, e['module'], e['fn'], e['message'], e['kind'], e['clause'][:160]))
    violations = []
    for e in soft:
        violations.append(dict(obligation='%s::%s: %s' % (e['module'], e['fn'], e['label_text'] or e['message']), unit=unit.name,
                               message=e['message'], kind=e['kind'], clause=e['clause'], rendered=e['rendered'],
                               repo_file=e['repo_file'], repo_line=e['repo_line'], backend='verus/z3', soft=True))
    for e in viol:
        violations.append(dict(obligation='%s::%s: %s' % (e['module'], e['fn'], e['label_text'] or e['message']), unit=unit.name,
                               message=e['message'], kind=e['kind'], clause=e['clause'], rendered=e['rendered'],
                               repo_file=e['repo_file'], repo_line=e['repo_line'], backend='verus/z3'))
    return violations
