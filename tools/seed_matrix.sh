#!/bin/sh
# usage: seed_matrix.sh <out file> <seed id> <prop> [<prop>...]  -- runs checks against a scratch worktree with the seed applied
out="$1"; seed="$2"; shift 2
wt=/tmp/seedm/$seed
mkdir -p /tmp/seedm /var/tmp/seedm_ev/$seed
[ -d $wt ] || git -C /repo worktree add -q --detach $wt HEAD
(cd $wt && git checkout -q -- . && git apply /verif/seeded/$seed/patch.diff) || { echo "$seed: patch does not apply" >> $out; exit 0; }
for p in "$@"; do
  VERIF_REPO=$wt VERIF_EVIDENCE_DIR=/var/tmp/seedm_ev/$seed VERIF_JOBS=${VERIF_JOBS:-6} /verif/check $p quick > /var/tmp/seedm_ev/$seed/$p.out 2>&1; rc=$?
  echo "seed=$seed check=$p rc=$rc $(grep -E '^VIOLATION|^UNDECIDED' /var/tmp/seedm_ev/$seed/$p.out | head -2 | cut -c1-160 | tr '\n' '|')" >> $out
done
git -C /repo worktree remove --force $wt
