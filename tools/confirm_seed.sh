#!/bin/sh
# usage: confirm_seed.sh <seed out dir containing patch.diff and seeded_demo.rs|demo.diff> <crate: cadence|cadence-macros>
# Confirms in a scratch worktree of /repo HEAD: suite passes with patch, demo fails with patch, demo passes without.
out="$1"; crate="${2:-cadence}"
wt=/tmp/seedcheck.$$
git -C /repo worktree add -q --detach $wt HEAD || exit 3
cd $wt
res=""
if ! git apply "$out/patch.diff"; then echo "RESULT patch-does-not-apply"; cd /; git -C /repo worktree remove --force $wt; exit 3; fi
suite=$(cargo test --workspace --no-fail-fast --offline 2>&1 | grep -E "^test .* FAILED" | grep -v "^test result\|test_metric_error_cause_io_error\|test_metric_error_description_io_error" | head -5)
if [ -n "$suite" ]; then res="$res suite-FAILS-with-patch[$suite]"; else res="$res suite-passes-with-patch"; fi
if [ -f "$out/seeded_demo.rs" ]; then cp "$out/seeded_demo.rs" $crate/tests/seeded_demo.rs; else git apply "$out/demo.diff" || res="$res demo-diff-does-not-apply"; fi
if cargo test -p $crate --offline --test seeded_demo >/tmp/seedcheck.$$.log 2>&1; then res="$res demo-PASSES-with-patch(bad)"; else res="$res demo-fails-with-patch"; fi
git apply -R "$out/patch.diff"
if cargo test -p $crate --offline --test seeded_demo >/tmp/seedcheck.$$.log2 2>&1; then res="$res demo-passes-without-patch"; else res="$res demo-FAILS-without-patch(bad)"; fi
echo "RESULT$res"
cd /; git -C /repo worktree remove --force $wt; rm -f /tmp/seedcheck.$$.log /tmp/seedcheck.$$.log2
