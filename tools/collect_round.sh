#!/bin/sh
# usage: collect_round.sh <round n> <Cnn>  -- copy a round-n seed out of /tmp/seed<n>/<Cnn>/_out, confirm it
n="$1"; c="$2"; crate=cadence
[ "$c" = "C17" ] || [ "$c" = "C18" ] && crate=cadence-macros
src=/tmp/seed$n/$c/_out
dst=/verif/seeded/$c-$n
[ -f $src/patch.diff ] || { echo "$c-$n: no patch.diff"; exit 1; }
mkdir -p $dst
cp $src/patch.diff $dst/; cp $src/notes.md $dst/ 2>/dev/null
if [ -f $src/seeded_demo.rs ]; then cp $src/seeded_demo.rs $dst/; else cp /tmp/seed$n/$c/$crate/tests/seeded_demo.rs $dst/ 2>/dev/null; fi
# some demos live in the other crate
if grep -q "cadence_macros" $dst/seeded_demo.rs 2>/dev/null; then crate=cadence-macros; fi
echo "$c-$n confirm: $(/verif/tools/confirm_seed.sh $dst $crate 2>&1 | tail -1)"
