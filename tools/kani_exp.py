#!/usr/bin/env python3
"""experiment helper: kani_exp.py <harness file> [timeout_s] [other groups...] -- runs all //@H harnesses of a file"""
import sys, os, time
sys.path.insert(0, os.path.dirname(os.path.abspath(__file__)))
import kani_track as kt, common
path = sys.argv[1]
timeout = int(sys.argv[2]) if len(sys.argv) > 2 else 300
g = kt.Group(path)
others = [kt.load_groups()[n] for n in sys.argv[3:]]
ws, err = kt.prepare_ws(others + [g])
names = [h.name for h in g.harnesses if not os.environ.get('ONLY') or h.name in os.environ['ONLY'].split(',')]
t = time.time()
res, cerr, wall, cmd = kt.run_harnesses(ws, g.package, names, timeout, modpath={n: g.modpath for n in names})
if cerr: print(cerr[:3000])
for n in names:
    r = res.get(n, {})
    print(n, r.get('status'), r.get('time_s'), r.get('failed_checks'), r.get('cover'))
print('wall', time.time() - t)
