#!/usr/bin/env python3
"""Regenerates MANIFEST.json from tools/props.py (claimed properties) + the static texts below."""
import json
import os
import sys
sys.path.insert(0, os.path.dirname(os.path.abspath(__file__)))
import props

HERE = os.path.dirname(os.path.dirname(os.path.abspath(__file__)))
all_ids = [json.loads(l)['id'] for l in open(os.path.join(HERE, 'properties.jsonl'))]
checks = []
for pid in all_ids:
    cfg = props.PROPS.get(pid)
    if not cfg:
        continue
    checks.append(dict(
        property_id=pid,
        quick_cmd='./check %s quick' % pid,
        thorough_cmd='./check %s thorough' % pid,
        evidence_file='/verif/evidence/%s.json' % pid,
        replay_cmd_template='./check --replay {path}',
        engine=cfg.get('engine', 'verus'),
        level_claimed=dict(category=cfg['level'], text=cfg['explanation'], design_ref='DESIGN.md section 4, ' + pid),
        level_note='; '.join(cfg.get('assumptions', [])),
        technique=cfg.get('technique', 'contract-based deductive verification (Verus requires/ensures on functions extracted from /repo each run)'),
    ))
na = [dict(property_id=p, reason=props.NOT_APPLICABLE.get(p, 'not yet covered by a registered check in this revision (see DESIGN.md); no claim is made'))
      for p in all_ids if p not in props.PROPS]
man = dict(
    version=1,
    setup_cmd='./setup.sh',
    hooks=dict(guard='cadence_verif', enable='RUSTFLAGS="--cfg cadence_verif" (Kani track: cargo kani on a scratch copy of /repo with --cfg cadence_verif)',
               baseline_off_cmd='cd /repo && cargo test --workspace --no-fail-fast --offline',
               source_commits=props.HOOK_COMMITS, add_only=True),
    engines=[
        dict(name='verus', path='/verif/tools/verus_track.py', serves_properties=[p for p in all_ids if p in props.PROPS and props.PROPS[p].get('engine', 'verus') in ('verus', 'verus+kani')],
             kind_free_text='Verus 0.2026.09.13 on functions extracted mechanically from /repo by tools/extract.py with contract overlays from contracts/*.rs'),
        dict(name='kani', path='/verif/tools/kani_track.py', serves_properties=[p for p in all_ids if p in props.PROPS and 'kani' in props.PROPS[p].get('engine', '')],
             kind_free_text='Kani 0.68 / CBMC 6.11 on a scratch copy of /repo with harness modules appended (contracts as Hoare triples on the real compiled functions)'),
    ],
    checks=checks,
    not_applicable=na,
    notes='exit 0 = all obligations discharged; exit 1 + VIOLATION line = a property obligation failed; exit 2 = undecided (tool limit / lost anchor), never an alarm. See DESIGN.md.',
)
json.dump(man, open(os.path.join(HERE, 'MANIFEST.json'), 'w'), indent=1)
print('MANIFEST.json: %d checks, %d not_applicable' % (len(checks), len(na)))
