"""Builds the replay crate from the current tree and turns failed obligations into replay files."""
import json
import os
import re
import hashlib

from common import run, VERIF, REPLAY_DIR, say

REPLAY_CRATE = os.path.join(VERIF, 'replay')
_built = {}

# which replay-crate family can search a concrete counterexample for a property
FAMILY = {'C05': 'io', 'C06': 'io', 'C07': 'io', 'C19': 'io', 'C02': 'conv+fmt', 'C01': 'fmt', 'C04': 'fmt', 'C03': 'client', 'C08': 'queue', 'C09': 'queue', 'C10': 'queue', 'C11': 'queue', 'C15': 'queue', 'C16': 'queue', 'C13': 'sink', 'C14': 'sink', 'C17': 'macros', 'C20': 'io+fmt', 'C12': 'queue'}


def slug(name):
    s = re.sub(r'[^A-Za-z0-9]+', '_', name).strip('_')
    if len(s) > 60:
        s = s[:48] + '_' + hashlib.sha1(name.encode()).hexdigest()[:8]
    return s


def build():
    if 'ok' in _built:
        return _built['ok']
    from common import REPO, scratch_dir
    crate = REPLAY_CRATE
    if os.path.realpath(REPO) != '/repo':
        # the replay crate has path dependencies on /repo: to run against another tree (seed
        # experiments) a scratch copy with rewritten paths is built instead
        import shutil
        d = scratch_dir('replay')
        crate = os.path.join(d, 'replay')
        shutil.copytree(REPLAY_CRATE, crate, ignore=shutil.ignore_patterns('target'))
        mf = os.path.join(crate, 'Cargo.toml')
        txt = open(mf).read().replace('"/repo/', '"%s/' % os.path.realpath(REPO))
        open(mf, 'w').write(txt)
    _built['crate'] = crate
    rc, out, err, _ = run(['cargo', 'build', '--offline', '--quiet'], cwd=crate, timeout=900)
    _built['ok'] = (rc == 0)
    _built['err'] = err[-3000:]
    return _built['ok']


def binary():
    return os.path.join(_built.get('crate', REPLAY_CRATE), 'target', 'debug', 'replay')


_search_cache = {}


def search(prop, family, seed, budget):
    key = (prop, family, seed, budget)
    if key not in _search_cache:
        _search_cache[key] = _search(prop, family, seed, budget)
    return _search_cache[key]


def _search(prop, family, seed, budget):
    if family and '+' in family:
        # several families serve this property: the first that finds a failing input wins
        whys = []
        for f in family.split('+'):
            hit, why = _search(prop, f, seed, budget)
            if hit:
                hit['family'] = f
                return hit, None
            whys.append('%s: %s' % (f, why))
        return None, ('search over %d seeded cases found no failing input' % budget) if all('found no failing input' in w for w in whys) else '; '.join(whys)
    if not build():
        return None, 'replay crate does not build against the current tree:\n' + _built.get('err', '')
    rc, out, err, _ = run([binary(), 'search', family, prop, str(seed), str(budget)], timeout=300)
    if rc != 0:
        return None, 'search crashed: ' + err[-1000:]
    lines = out.strip().split('\n')
    if lines and lines[0].startswith('FOUND '):
        return dict(case=lines[0][6:], failures=lines[1:]), None
    return None, 'search over %d seeded cases found no failing input' % budget


def decode_inputs(spec, values):
    """spec 'secs:u64,nanos:u32' + Kani concrete-playback byte vectors (in kani::any() call order)"""
    out = {}
    names = [x.split(':') for x in spec.split(',') if x]
    for (name, ty), val in zip(names, values):
        n = int.from_bytes(bytes(val), 'little', signed=False)
        if ty.startswith('i'):
            bits = 8 * len(val)
            if n >= 1 << (bits - 1):
                n -= 1 << bits
        out[name] = n
    return out


def case_from_kani(v):
    """turn a Kani counterexample into a replay-crate case, where a mapping exists"""
    if not v.get('kani_values') or not v.get('inputs') or not v.get('family'):
        return None
    vals = v['kani_values'][0]['values']
    d = decode_inputs(v['inputs'], vals)
    if v['family'] == 'conv':
        kind = 'timer' if 'timer' in v['obligation'] else 'hist'
        if d.get('nanos', 0) >= 1000000000:
            return None
        return 'kind=%s;secs=%d;nanos=%d' % (kind, d.get('secs', 0), d.get('nanos', 0))
    return None


def make_replay(prop, n, v, seed, tier):
    os.makedirs(REPLAY_DIR, exist_ok=True)
    path = os.path.join(REPLAY_DIR, '%s-%d.json' % (prop, n))
    doc = dict(property=prop, failed_obligation=v['obligation'], unit=v.get('unit'), back_end=v.get('backend'),
               verifier_message=v.get('message'), clause=v.get('clause'), verifier_output=v.get('rendered'),
               repo_location='%s:%s' % (v.get('repo_file'), v.get('repo_line')) if v.get('repo_file') else None)
    found = False
    if v.get('kani_values'):
        doc['kani_counterexample'] = v['kani_values']
        doc['kani_inputs'] = v.get('inputs')
        c = case_from_kani(v)
        if c:
            v = dict(v, case=c)
    if v.get('case'):
        # the verifier itself produced a concrete counterexample (Kani concrete playback)
        doc.update(family=v.get('family'), case=v['case'], source='verifier counterexample')
        ok, detail = confirm(doc)
        doc['replayed_on_real_code'] = detail
        found = ok
    if not found:
        fam = v.get('family') or FAMILY.get(prop)
        if fam:
            hit, why = search(prop, fam, seed, (200000 if tier == 'thorough' else 40000) if fam not in ('queue', 'sink') else (1500 if tier == 'thorough' else 300))
            if hit:
                doc.update(family=hit.get('family', fam), case=hit['case'], oracle_failures=hit['failures'],
                           source='seeded concrete search of the real code with the property oracle (replay crate)')
                found = True
            else:
                doc['search'] = why
        else:
            doc['search'] = 'no concrete search family exists for this obligation'
    doc['how_to_replay'] = './check --replay %s' % path
    json.dump(doc, open(path, 'w'), indent=1)
    return path, found


def confirm(doc):
    if not doc.get('family') or not doc.get('case'):
        return False, 'no concrete case'
    if not build():
        return False, 'replay crate does not build'
    rc, out, err, _ = run([binary(), 'run', doc['family'], doc['case']], timeout=120)
    if rc == 1:
        return True, out.strip()
    if rc == 0:
        return False, 'case does not fail on the real code: ' + out.strip()
    return False, 'replay error: ' + (err or out)[-500:]


def run_replay(path):
    doc = json.load(open(path))
    say('property %s, failed obligation: %s' % (doc.get('property'), doc.get('failed_obligation')))
    if not doc.get('case'):
        say('no concrete input recorded (no-failing-input-found); verifier output follows')
        say(doc.get('verifier_output') or doc.get('verifier_message') or '')
        return 1
    ok, detail = confirm(doc)
    say(detail)
    say('REPRODUCED' if ok else 'NOT REPRODUCED')
    return 1 if ok else 0
