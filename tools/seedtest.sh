#!/bin/sh
# usage: tools/seedtest.sh <patch.diff> <prop> [<prop>...]   -- applies the patch to /repo, runs the checks, reverts
patch="$1"; shift
cd /verif
git -C /repo apply "$patch" || { echo "patch does not apply"; exit 3; }
for p in "$@"; do
  VERIF_EVIDENCE_DIR=/var/tmp/seedtest_ev ./check "$p" quick > /var/tmp/seedtest.$p.out 2>&1; rc=$?
  echo "[$p] rc=$rc: $(grep -E '^VIOLATION|^UNDECIDED' /var/tmp/seedtest.$p.out | head -3 | cut -c1-220 | tr '\n' '|')"
done
git -C /repo checkout -- . 
git -C /repo status --short
