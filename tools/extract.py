#!/usr/bin/env python3
"""Mechanical extractor for the Verus track.

Reads a *template* (contracts/*.rs) and produces a single-file Verus program in which every
`//@FN`, `//@ITEM`, `//@MACROS` directive is replaced by text copied from the CURRENT /repo tree,
after the fixed, purely syntactic rewrite rules listed in DESIGN.md section 2.1.  Nothing else is
generated: the template carries models (trusted) and contracts (requires/ensures/invariants); the
code bodies always come from /repo.

Directives (each on its own line, inside the template):

  //@REWRITE <name> :: <python regex> => <replacement>      rename rule (X1/X2/X6), applied to every
                                                            copied signature and body
  //@ITEM <file> :: <regex that matches the item header>    copy a struct/enum/const item verbatim
  //@MACROS <file>                                           copy every `macro_rules!` item verbatim
  //@FN <file> :: <scope header regex or -> :: <fn name> [:: key=value ...]
      <verus contract lines: requires/ensures/...>
  //@LOOP <ordinal>
      <invariant / decreases lines for the <ordinal>-th loop of the body>
  //@END

Options of //@FN:  as=<new name>   vis=<text>   ret=<name for the return value, default r>
                   nosig=1 (body only: the template supplies the signature line itself)

Exit codes of this module (raised as ExtractError): lost anchor / unsupported construct => the
caller exits 2 (undecided), never a VIOLATION.
"""
import re
import sys
import os
import json


class ExtractError(Exception):
    pass


# ------------------------------------------------------------------------------------------
# lexical mask: same length as the source, comments/strings/chars blanked, so that brace
# matching and regexes on the mask give offsets valid in the source
# ------------------------------------------------------------------------------------------
def mask_source(src: str) -> str:
    out = list(src)
    i, n = 0, len(src)

    def blank(a, b):
        for k in range(a, b):
            if out[k] != '\n':
                out[k] = ' '

    while i < n:
        c = src[i]
        if src.startswith('//', i):
            j = src.find('\n', i)
            j = n if j < 0 else j
            blank(i, j)
            i = j
        elif src.startswith('/*', i):
            depth, j = 1, i + 2
            while j < n and depth > 0:
                if src.startswith('/*', j):
                    depth += 1
                    j += 2
                elif src.startswith('*/', j):
                    depth -= 1
                    j += 2
                else:
                    j += 1
            blank(i, j)
            i = j
        elif c == '"' or (c in 'rb' and re.match(r'(br|rb|r|b)#*"', src[i:i + 12]) and (i == 0 or not (src[i - 1].isalnum() or src[i - 1] == '_'))):
            m = re.match(r'(br|rb|r|b)?(#*)"', src[i:i + 12])
            raw = m.group(1) is not None and 'r' in m.group(1)
            hashes = m.group(2)
            j = i + m.end()
            if raw:
                end = src.find('"' + hashes, j)
                if end < 0:
                    raise ExtractError('unterminated raw string')
                blank(i + m.end(), end)
                i = end + 1 + len(hashes)
            else:
                while j < n and src[j] != '"':
                    j += 2 if src[j] == '\\' else 1
                blank(i + m.end(), j)
                i = j + 1
        elif c == "'":
            # char literal or lifetime
            m = re.match(r"'(\\.[^']*|[^\\'])'", src[i:i + 12])
            if m:
                blank(i + 1, i + m.end() - 1)
                i += m.end()
            else:
                i += 1
        else:
            i += 1
    return ''.join(out)


def match_close(mask: str, open_pos: int) -> int:
    """position of the bracket matching the one at open_pos"""
    pairs = {'{': '}', '(': ')', '[': ']'}
    o = mask[open_pos]
    c = pairs[o]
    depth = 0
    for k in range(open_pos, len(mask)):
        ch = mask[k]
        if ch == o:
            depth += 1
        elif ch == c:
            depth -= 1
            if depth == 0:
                return k
    raise ExtractError('unbalanced %s at offset %d' % (o, open_pos))


class Source:
    def __init__(self, repo, rel):
        self.rel = rel
        self.path = os.path.join(repo, rel)
        if not os.path.exists(self.path):
            raise ExtractError('lost anchor: file %s is missing' % rel)
        self.src = open(self.path).read()
        self.mask = mask_source(self.src)
        # blank out `#[cfg(test)] mod tests { .. }` so test helpers are never extracted
        for m in re.finditer(r'#\[cfg\(test\)\]\s*mod\s+\w+\s*\{', self.mask):
            o = m.end() - 1
            c = match_close(self.mask, o)
            self.mask = self.mask[:m.start()] + re.sub(r'[^\n]', ' ', self.mask[m.start():c + 1]) + self.mask[c + 1:]

    def line_of(self, off):
        return self.src.count('\n', 0, off) + 1

    def find_scope(self, header_re):
        """returns (open_brace, close_brace) of the first item whose header matches"""
        if header_re.strip() == '-':
            return (-1, len(self.src))
        m = re.search(header_re, self.mask)
        if not m:
            raise ExtractError('lost anchor: no item matching /%s/ in %s' % (header_re, self.rel))
        o = self.mask.find('{', m.end() - 1 if self.mask[m.end() - 1] == '{' else m.end())
        if o < 0:
            raise ExtractError('lost anchor: item /%s/ has no body in %s' % (header_re, self.rel))
        return (o, match_close(self.mask, o))

    def find_fn(self, scope, name):
        """returns dict(sig, body, line) for `fn name` directly inside scope (depth 1)"""
        o, c = scope
        for m in re.finditer(r'\bfn\s+' + re.escape(name) + r'\b', self.mask[o + 1:c]):
            pos = o + 1 + m.start()
            # depth of pos relative to the scope must be 0
            seg = self.mask[o + 1:pos]
            if seg.count('{') != seg.count('}'):
                continue
            # start of item = after previous ';' or '}' or '{' or ']' (attribute end)
            start = pos
            k = pos - 1
            while k > o and self.mask[k] not in ';}{]':
                k -= 1
            start = k + 1
            # body
            b = pos
            depth = 0
            while b < c:
                ch = self.mask[b]
                if ch in '(<[':
                    depth += 1 if ch != '<' else 0
                elif ch in ')]':
                    depth -= 1
                elif ch == '{' and depth == 0:
                    break
                elif ch == ';' and depth == 0:
                    raise ExtractError('unsupported construct: fn %s in %s has no body' % (name, self.rel))
                b += 1
            e = match_close(self.mask, b)
            return dict(sig=self.src[start:b].strip(), body=self.src[b:e + 1], line=self.line_of(pos), end_line=self.line_of(e), body_off=b)
        raise ExtractError('lost anchor: fn %s not found in scope of %s' % (name, self.rel))

    def find_item(self, header_re):
        m = re.search(header_re, self.mask)
        if not m:
            raise ExtractError('lost anchor: no item matching /%s/ in %s' % (header_re, self.rel))
        # item ends at matching close brace, or at ';' if that comes first
        semi = self.mask.find(';', m.end() - 1)
        o = self.mask.find('{', m.end() - 1)
        if o < 0 or (0 <= semi < o):
            if semi < 0:
                raise ExtractError('lost anchor: item /%s/ not terminated' % header_re)
            return dict(text=self.src[m.start():semi + 1], line=self.line_of(m.start()))
        e = match_close(self.mask, o)
        return dict(text=self.src[m.start():e + 1], line=self.line_of(m.start()))

    def macros(self):
        res = []
        for m in re.finditer(r'\bmacro_rules!\s*(\w+)\s*\{', self.mask):
            o = m.end() - 1
            e = match_close(self.mask, o)
            # keep the attributes in front of the item (#[macro_export], #[doc(hidden)])
            st = m.start()
            while True:
                am = re.search(r'#\[[^\]]*\]\s*$', self.mask[:st])
                if not am:
                    break
                st = am.start()
            res.append(dict(name=m.group(1), text=self.src[st:e + 1], line=self.line_of(m.start())))
        if not res:
            raise ExtractError('lost anchor: no macro_rules! in %s' % self.rel)
        return res


# ------------------------------------------------------------------------------------------
# rewrite rules on copied code
# ------------------------------------------------------------------------------------------
def strip_comments(text):
    """remove comments (doc and ordinary) from copied code; keeps line structure"""
    mask = mask_source(text)
    out = []
    i = 0
    n = len(text)
    while i < n:
        if text.startswith('//', i) and mask[i] == ' ':
            j = text.find('\n', i)
            j = n if j < 0 else j
            i = j
        elif text.startswith('/*', i) and mask[i] == ' ':
            depth, j = 1, i + 2
            while j < n and depth > 0:
                if text.startswith('/*', j):
                    depth += 1
                    j += 2
                elif text.startswith('*/', j):
                    depth -= 1
                    j += 2
                else:
                    j += 1
            i = j
        else:
            out.append(text[i])
            i += 1
    return ''.join(out)


def split_top_commas(s):
    parts, depth, cur = [], 0, []
    mask = mask_source(s)
    for ch, mc in zip(s, mask):
        if mc in '([{':
            depth += 1
        elif mc in ')]}':
            depth -= 1
        if mc == ',' and depth == 0:
            parts.append(''.join(cur).strip())
            cur = []
        else:
            cur.append(ch)
    last = ''.join(cur).strip()
    if last:
        parts.append(last)
    return parts


def rust_str_literal(s):
    return '"' + s.replace('\\', '\\\\').replace('"', '\\"').replace('\n', '\\n') + '"'


def parse_format_string(lit):
    """lit: Rust string literal text including quotes (no raw strings). Returns list of
    ('lit', text) / ('arg', spec) pieces."""
    if not (lit.startswith('"') and lit.endswith('"')):
        raise ExtractError('unsupported construct: write! format is not a plain string literal: %s' % lit)
    body = lit[1:-1]
    if '\\' in body:
        raise ExtractError('unsupported construct: escape in write! format string: %s' % lit)
    pieces, cur, i = [], '', 0
    while i < len(body):
        ch = body[i]
        if ch == '{':
            if body.startswith('{{', i):
                cur += '{'
                i += 2
                continue
            j = body.find('}', i)
            if j < 0:
                raise ExtractError('unsupported construct: bad format string %s' % lit)
            if cur:
                pieces.append(('lit', cur))
                cur = ''
            pieces.append(('arg', body[i + 1:j]))
            i = j + 1
        elif ch == '}':
            if body.startswith('}}', i):
                cur += '}'
                i += 2
                continue
            raise ExtractError('unsupported construct: bad format string %s' % lit)
        else:
            cur += ch
            i += 1
    if cur:
        pieces.append(('lit', cur))
    return pieces


def rule_x3_write_macro(body, counts):
    """`let _ = write!(OUT, "..{}..", a, b);`  /  `write!(OUT, ...)`  ->  sequence of push_str / fmt calls"""
    while True:
        mask = mask_source(body)
        m = re.search(r'(let\s+_\s*=\s*)?\bwrite!\s*\(', mask)
        if not m:
            return body
        o = m.end() - 1
        c = match_close(mask, o)
        args = split_top_commas(body[o + 1:c])
        if len(args) < 2:
            raise ExtractError('unsupported construct: write! with %d args' % len(args))
        out, fmt, rest = args[0], args[1], args[2:]
        pieces = parse_format_string(fmt)
        stmts, k = [], 0
        for kind, val in pieces:
            if kind == 'lit':
                stmts.append('%s.push_str(%s)' % (out, rust_str_literal(val)))
            else:
                if k >= len(rest):
                    raise ExtractError('unsupported construct: write! placeholder without argument')
                a = rest[k]
                k += 1
                if val == '':
                    stmts.append('let _ = (%s).fmt(%s)' % (a, out))
                else:
                    # any non-default format spec is mapped to an unconstrained renderer, so a
                    # contract that expects the plain rendering fails instead of being missed
                    stmts.append('let _ = vfmt_unconstrained(&(%s), %s)' % (a, out))
        if k != len(rest):
            raise ExtractError('unsupported construct: write! with unused arguments')
        # statement form only: must be followed by ';'
        tail = c + 1
        while tail < len(body) and body[tail] in ' \t\n':
            tail += 1
        if tail >= len(body) or body[tail] != ';':
            raise ExtractError('unsupported construct: write! used as an expression')
        body = body[:m.start()] + '; '.join(stmts) + body[tail:]
        counts['X3'] = counts.get('X3', 0) + 1


def rule_x4_for_loops(body, loops, counts):
    """for (I, P) in E.iter().enumerate() { B }  /  for P in E.iter() { B }
       ->  let mut I: usize = 0; while I < E.len() <invariant> { let P = ...; B'; I += 1; }
    `loops` maps loop ordinal (1-based, in textual order, counting `for` and `while`) to contract text."""
    ordinal = 0
    pos = 0
    while True:
        mask = mask_source(body)
        m = re.search(r'\b(for|while|loop)\b', mask[pos:])
        if not m:
            break
        start = pos + m.start()
        kw = m.group(1)
        ordinal += 1
        o = mask.find('{', start)
        # find the body brace at paren depth 0
        depth = 0
        k = start
        while k < len(mask):
            if mask[k] in '([':
                depth += 1
            elif mask[k] in ')]':
                depth -= 1
            elif mask[k] == '{' and depth == 0:
                break
            k += 1
        o = k
        c = match_close(mask, o)
        contract = loops.get(ordinal, '')
        if kw == 'for':
            head = body[start:o]
            hm = re.match(r'for\s+\(\s*(\w+)\s*,\s*(.+?)\s*\)\s+in\s+(.+?)\.iter\(\)\.enumerate\(\)\s*$', head, re.S)
            hm2 = re.match(r'for\s+(.+?)\s+in\s+(.+?)\.iter\(\)\s*$', head, re.S)
            if hm:
                idx, pat, coll = hm.group(1), hm.group(2), hm.group(3)
            elif hm2:
                idx, pat, coll = '__i%d' % ordinal, hm2.group(1), hm2.group(2)
            else:
                raise ExtractError('unsupported construct: for-loop head `%s`' % head.strip())
            pat = pat.strip()
            if pat.startswith('&'):
                bind = 'let %s = %s[%s];' % (pat[1:].strip(), coll, idx)
            else:
                bind = 'let %s = &%s[%s];' % (pat, coll, idx)
            inner = body[o + 1:c]
            if re.search(r'\b(continue|break)\b', mask[o + 1:c]):
                raise ExtractError('unsupported construct: break/continue inside translated for-loop')
            # `$i` in the overlay stands for the loop's index variable, whatever the source calls it
            new = ('let mut %s: usize = 0;\n while %s < %s.len()\n%s\n{ %s %s\n %s += 1; }' %
                   (idx, idx, coll, contract.replace('$i', idx), bind, inner, idx))
            body = body[:start] + new + body[c + 1:]
            counts['X4'] = counts.get('X4', 0) + 1
            pos = start + len('let mut %s: usize = 0;\n while ' % idx)
            # skip over the `while` keyword we just produced (already counted)
            pos = start + new.find('{')
        else:
            if contract:
                body = body[:o] + '\n' + contract + '\n' + body[o:]
                pos = o + len(contract) + 3
            else:
                pos = o + 1
    for k in loops:
        if k > ordinal:
            raise ExtractError('lost anchor: contract names loop %d but the body has %d loop(s)' % (k, ordinal))
    return body


ATTR_RE = re.compile(r'#\[(derive|rustfmt::skip|allow|doc|inline|must_use)[^\]]*\]\s*')


def apply_rewrites(text, rewrites, counts):
    for name, rx, rep in rewrites:
        text, n = re.subn(rx, rep, text)
        if n:
            counts[name] = counts.get(name, 0) + n
    return text


def named_return(sig, retname):
    """`fn f(..) -> T [where ..]` -> `fn f(..) -> (r: T) [where ..]`"""
    mask = mask_source(sig)
    # find top-level '->' after the parameter list
    p = mask.find('(')
    c = match_close(mask, p)
    arrow = mask.find('->', c)
    if arrow < 0:
        return sig
    wm = re.search(r'\bwhere\b', mask[arrow:])
    end = arrow + wm.start() if wm else len(sig)
    ty = sig[arrow + 2:end].strip()
    return sig[:arrow] + '-> (%s: %s)' % (retname, ty) + (' ' + sig[end:] if wm else '')


# ------------------------------------------------------------------------------------------
# template expansion
# ------------------------------------------------------------------------------------------
def expand(template_path, repo, twin_suffix=None):
    """returns (text, meta). meta: functions[{name,file,line,out_start,out_end}], rules, items"""
    lines = open(template_path).read().split('\n')
    out = []
    meta = dict(template=template_path, functions=[], items=[], rules={}, rewrites=[], labels=[])
    rewrites = []
    sources = {}

    def src_of(rel):
        if rel not in sources:
            sources[rel] = Source(repo, rel)
        return sources[rel]

    counts = meta['rules']
    i = 0
    while i < len(lines):
        ln = lines[i]
        s = ln.strip()
        if s.startswith('//@REWRITE'):
            m = re.match(r'//@REWRITE\s+(\S+)\s*::\s*(.+?)\s*=>\s?(.*)$', s)
            if not m:
                raise ExtractError('bad directive: ' + s)
            rewrites.append((m.group(1), m.group(2), m.group(3)))
            meta['rewrites'].append(dict(rule=m.group(1), regex=m.group(2), replacement=m.group(3)))
            i += 1
        elif s.startswith('//@ITEM'):
            m = re.match(r'//@ITEM\s+(\S+)\s*::\s*(.+)$', s)
            src = src_of(m.group(1))
            it = src.find_item(m.group(2).strip())
            text = strip_comments(it['text'])
            text = ATTR_RE.sub('', text)
            text = apply_rewrites(text, rewrites, counts)
            counts['X7'] = counts.get('X7', 0) + 1
            meta['items'].append(dict(file=m.group(1), line=it['line'], header=m.group(2).strip()))
            out.append('// ---- copied from %s:%d' % (m.group(1), it['line']))
            out.extend(text.split('\n'))
            i += 1
        elif s.startswith('//@MACROS'):
            m = re.match(r'//@MACROS\s+(\S+)', s)
            src = src_of(m.group(1))
            for mac in src.macros():
                text = strip_comments(mac['text'])
                text = apply_rewrites(text, rewrites, counts)
                meta['items'].append(dict(file=m.group(1), line=mac['line'], header='macro_rules! ' + mac['name']))
                out.append('// ---- copied from %s:%d' % (m.group(1), mac['line']))
                out.extend(text.split('\n'))
            i += 1
        elif s.startswith('//@FN'):
            parts = [p.strip() for p in s[len('//@FN'):].split('::')]
            # the scope regex may itself contain '::' -- rejoin: file, scope..., name, [opts]
            opts = {}
            while parts and re.match(r'^\w+=.*$', parts[-1]) and not parts[-1].startswith('impl'):
                k, v = parts.pop().split('=', 1)
                opts[k] = v
            rel, name = parts[0], parts[-1]
            scope_re = '::'.join(parts[1:-1])
            contract, loops, cur = [], {}, None
            i += 1
            while i < len(lines) and lines[i].strip() != '//@END':
                t = lines[i].strip()
                if t.startswith('//@LOOP'):
                    cur = int(t.split()[1])
                    loops[cur] = []
                elif t.startswith('//@'):
                    raise ExtractError('bad directive inside //@FN: ' + t)
                elif cur is None:
                    contract.append(lines[i])
                else:
                    loops[cur].append(lines[i])
                i += 1
            if i >= len(lines):
                raise ExtractError('//@FN without //@END for ' + name)
            i += 1
            src = src_of(rel)
            fn = src.find_fn(src.find_scope(scope_re), name)
            sig = ATTR_RE.sub('', strip_comments(fn['sig']))
            sig = re.sub(r'\s+', ' ', sig).strip()
            body = strip_comments(fn['body'])
            body = rule_x3_write_macro(body, counts)
            body = rule_x4_for_loops(body, {k: '\n'.join(v) for k, v in loops.items()}, counts)
            sig = apply_rewrites(sig, rewrites, counts)
            body = apply_rewrites(body, rewrites, counts)
            sig = named_return(sig, opts.get('ret', 'r'))
            newname = opts.get('as', name)
            if 'vis' in opts:
                sig = re.sub(r'^(pub(\([^)]*\))?\s+)?', opts['vis'] + ' ' if opts['vis'] else '', sig, count=1)
            variants = [(newname, False)]
            if twin_suffix and not opts.get('notwin'):
                variants.append((newname + twin_suffix, True))
            for vname, twin in variants:
                vsig = re.sub(r'\bfn\s+' + re.escape(name) + r'\b', 'fn ' + vname, sig, count=1)
                start_line = len(out) + 1
                out.append('// ---- copied from %s:%d (fn %s)' % (rel, fn['line'], name))
                if not opts.get('nosig'):
                    out.extend(vsig.split('\n'))
                clines = list(contract)
                if twin:
                    nocomment = '\n'.join(re.sub(r'//.*$', '', x) for x in clines)
                    if re.search(r'\bensures\b', nocomment):
                        sep = '' if nocomment.rstrip().endswith(',') or nocomment.rstrip().endswith('ensures') else ', '
                        clines.append('        %sfalse, // vacuity twin' % sep)
                    else:
                        clines.append('    ensures false, // vacuity twin')
                c_start = len(out) + 1
                for cl in clines:
                    lm = re.search(r'//\s*\[([A-Z0-9_., ?-]+)\]\s*(.*)$', cl)
                    if lm:
                        meta['labels'].append(dict(line=len(out) + 1, props=[p.strip() for p in re.split(r'[ ,]+', lm.group(1)) if p.strip()], text=lm.group(2).strip(), fn=vname))
                    out.append(cl)
                out.extend(body.split('\n'))
                meta['functions'].append(dict(name=vname, orig=name, twin=twin, file=rel, line=fn['line'], end_line=fn['end_line'],
                                              out_start=start_line, out_end=len(out), contract_start=c_start))
        elif s.startswith('//@PROBE'):
            # the template function that follows (up to the next line that is exactly "}") MUST FAIL
            # verification: vacuity / sensitivity probe
            name = s[len('//@PROBE'):].strip()
            j = i + 1
            while j < len(lines) and lines[j] != '}':
                j += 1
            fm = re.search(r'fn\s+(\w+)', '\n'.join(lines[i + 1:i + 4]))
            meta.setdefault('probes', []).append(dict(name=name, fn=(fm.group(1) if fm else name), out_start=len(out) + 1, out_end=len(out) + (j - i)))
            i += 1
        elif s.startswith('//@'):
            raise ExtractError('unknown directive: ' + s)
        else:
            lm = re.search(r'//\s*\[([A-Z0-9_., ?-]+)\]\s*(.*)$', ln)
            if lm and re.match(r'^[A-Z]\d\d', lm.group(1).strip()):
                meta['labels'].append(dict(line=len(out) + 1, props=[p.strip() for p in re.split(r'[ ,]+', lm.group(1)) if p.strip()], text=lm.group(2).strip(), fn=None))
            out.append(ln)
            i += 1
    return '\n'.join(out) + '\n', meta


if __name__ == '__main__':
    tpl, repo, dst = sys.argv[1], sys.argv[2], sys.argv[3]
    twin = sys.argv[4] if len(sys.argv) > 4 else None
    try:
        text, meta = expand(tpl, repo, twin)
    except ExtractError as e:
        print('extract: ' + str(e), file=sys.stderr)
        sys.exit(2)
    open(dst, 'w').write(text)
    json.dump(meta, open(dst + '.meta.json', 'w'), indent=1)
    print('extracted %d functions, %d items -> %s' % (len(meta['functions']), len(meta['items']), dst))
