#!/bin/sh
# usage: collect_round2.sh <Cnn>  -- copy a round-2 seed out of its worktree, confirm it, run its own check against it
c="$1"; crate=cadence
[ "$c" = "C17" ] || [ "$c" = "C18" ] && crate=cadence-macros
src=/tmp/seed2/$c/_out
dst=/verif/seeded/$c-2
[ -f $src/patch.diff ] || { echo "$c: no patch.diff"; exit 1; }
mkdir -p $dst
cp $src/patch.diff $dst/; cp $src/notes.md $dst/ 2>/dev/null
if [ -f $src/seeded_demo.rs ]; then cp $src/seeded_demo.rs $dst/; else cp /tmp/seed2/$c/$crate/tests/seeded_demo.rs $dst/ 2>/dev/null; fi
[ -f $src/demo.diff ] && cp $src/demo.diff $dst/
echo "$c-2 confirm: $(/verif/tools/confirm_seed.sh $dst $crate 2>&1 | tail -1)"
