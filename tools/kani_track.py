"""Kani track: scratch copy of /repo + harness modules appended to the real source files
(add-only, rules K1-K4 of DESIGN 2.2), one `cargo kani` run per check with all selected harnesses
in parallel; failed harnesses are re-run with concrete playback to obtain the counterexample.

Harness files live in /verif/kani/harness/*.rs:
   //@APPEND <repo file>                      where the text below is appended
   //@H name=<harness fn> props=C02,C20 tier=quick|thorough [bound="..."] [family=<replay family>] :: <obligation text>
   #[kani::proof] fn <harness fn>() { ... }
"""
import glob
import os
import re
import shutil
import sys

sys.path.insert(0, os.path.dirname(os.path.abspath(__file__)))
from common import run, scratch_dir, REPO, VERIF, env_offline  # noqa: E402

HARNESS_DIR = os.path.join(VERIF, 'kani', 'harness')
SHIM = os.path.join(VERIF, 'kani', 'shims', 'crossbeam-channel')
KANI_FLAGS = ['-Z', 'function-contracts', '-Z', 'stubbing', '-Z', 'unstable-options']
JOBS = int(os.environ.get('VERIF_JOBS', '16'))


class Harness:
    def __init__(self, group, name, props, tier, bound, family, text, line, extra):
        self.group, self.name, self.props, self.tier = group, name, props, tier
        self.bound, self.family, self.text, self.line = bound, family, text, line
        self.extra = extra


class Group:
    def __init__(self, path):
        self.path = path
        self.name = os.path.basename(path)[:-3]
        self.text = open(path).read()
        m = re.search(r'^//@APPEND\s+(\S+)', self.text, re.M)
        if not m:
            raise ValueError('%s: missing //@APPEND' % path)
        self.target = m.group(1)
        self.package = 'cadence-macros' if self.target.startswith('cadence-macros/') else 'cadence'
        rel = self.target.split('/src/', 1)[1][:-3]
        mm = re.search(r'^\s*(?:pub(?:\([a-z]+\))?\s+)?mod\s+(\w+)\s*\{', self.text, re.M)
        # fully qualified module path of the harnesses (cargo kani --exact needs it: a plain --harness
        # filter matches substrings, so `c16_x` would also run `c16_x_rev`)
        self.modpath = '::'.join([x for x in rel.split('/') if x not in ('lib', 'mod')] + ([mm.group(1)] if mm else []))
        self.harnesses = []
        for i, ln in enumerate(self.text.split('\n')):
            m = re.match(r'\s*//@H\s+(.*?)\s+::\s+(.*)$', ln)
            if m:
                kv = dict(re.findall(r'(\w+)=("[^"]*"|\S+)', m.group(1)))
                kv = {k: v.strip('"') for k, v in kv.items()}
                self.harnesses.append(Harness(self, kv['name'], kv.get('props', '').split(','), kv.get('tier', 'quick'),
                                              kv.get('bound') or None, kv.get('family'), m.group(2).strip(), i + 1, kv))
        self.stubs = re.findall(r'#\[kani::stub(?:_verified)?\(([^)]*)\)\]', self.text)
        self.assumes = len(re.findall(r'kani::assume\(', self.text))


def load_groups():
    return {os.path.basename(p)[:-3]: Group(p) for p in sorted(glob.glob(os.path.join(HARNESS_DIR, '*.rs')))}


_ws_cache = {}

# K5: Kani assumes an asserted condition afterwards, so a failed postcondition would hide every
# postcondition stated behind it in the same harness (often one of ANOTHER property). Harness
# assertions are therefore checked on one side of an arbitrary branch: each is still reported
# when it can fail, and the execution goes on behind it either way.
NONBLOCKING_ASSERT = """#[cfg(kani)]
#[allow(unused_macros)]
macro_rules! vassert {
    ($c:expr $(,)?) => {{ let vassert_c: bool = $c; if kani::any::<bool>() { assert!(vassert_c); } }};
    ($c:expr, $($m:tt)+) => {{ let vassert_c: bool = $c; if kani::any::<bool>() { assert!(vassert_c, $($m)+); } }};
}
"""


def prepare_ws(groups):
    """K1-K4: scratch copy, append harness modules, patch crossbeam, drop forbid(unsafe_code)"""
    key = tuple(sorted(g.name for g in groups))
    if key in _ws_cache:
        return _ws_cache[key]
    d = scratch_dir('kani')
    ws = os.path.join(d, 'ws')
    shutil.copytree(REPO, ws, ignore=shutil.ignore_patterns('target', '.git', '_out'))
    notes = []
    for g in groups:
        tgt = os.path.join(ws, g.target)
        if not os.path.exists(tgt):
            return None, 'lost anchor: %s does not exist (harness group %s)' % (g.target, g.name)
        with open(tgt, 'a') as f:
            f.write('\n// ===== appended by /verif (K1): harness group %s =====\n' % g.name)
            f.write(NONBLOCKING_ASSERT)
            f.write(g.text if os.environ.get('VERIF_NO_K5') else re.sub(r'(?<![\w:!])assert!\(', 'vassert!(', g.text))
        notes.append('K1 append %s -> %s' % (g.name, g.target))
    with open(os.path.join(ws, 'Cargo.toml'), 'a') as f:
        f.write('\n[patch.crates-io]\ncrossbeam-channel = { path = "%s" }\n' % SHIM)
    for lib in ('cadence/src/lib.rs',):
        p = os.path.join(ws, lib)
        s = open(p).read()
        s2 = s.replace('#![forbid(unsafe_code)]', '// (K3: forbid(unsafe_code) removed in the scratch copy only)')
        open(p, 'w').write(s2)
    lock = os.path.join(ws, 'Cargo.lock')
    if os.path.exists(lock):
        os.remove(lock)   # the shim replaces crossbeam-channel (+ its crossbeam-utils dependency)
    _ws_cache[key] = (ws, None)
    return ws, None


def parse_terse(out):
    """returns dict harness -> dict(status, time_s, failed_checks, raw)"""
    res = {}
    cur_by_thread = {}
    cur = None
    block = {}
    lines = out.split('\n')
    seq_cur = None
    for ln in lines:
        m = re.match(r'(?:Thread (\d+): )?Checking harness ([\w:]+)\.\.\.', ln)
        if m:
            t = m.group(1) or 'seq'
            cur_by_thread[t] = m.group(2)
            res.setdefault(m.group(2), dict(status='unknown', time_s=None, failed_checks=[], raw=[]))
            seq_cur = m.group(2) if not m.group(1) else seq_cur
            cur = m.group(2) if not m.group(1) else cur
            continue
        m = re.match(r'Thread (\d+):\s*$', ln)
        if m:
            cur = cur_by_thread.get(m.group(1))
            continue
        if cur is None:
            continue
        r = res[cur]
        r['raw'].append(ln)
        if ln.startswith('VERIFICATION:- SUCCESSFUL'):
            r['status'] = 'success'
        elif ln.startswith('VERIFICATION:- FAILED'):
            r['status'] = 'failure'
        elif ln.startswith('Failed Checks:'):
            r['failed_checks'].append(ln[len('Failed Checks:'):].strip())
        elif ln.startswith(' File:') and r['failed_checks']:
            r['failed_checks'][-1] += ' @' + ln.strip()
        m = re.match(r'Verification Time: ([\d.]+)s', ln)
        if m:
            r['time_s'] = float(m.group(1))
        m = re.match(r'\s*\*\* (\d+) of (\d+) cover properties satisfied', ln)
        if m:
            r['cover'] = (int(m.group(1)), int(m.group(2)))
        m = re.match(r'\s*\*\* (\d+) of (\d+) failed', ln)
        if m:
            r['checks'] = (int(m.group(1)), int(m.group(2)))
        if 'CBMC timed out' in ln or 'timed out' in ln.lower() and 'harness' in ln.lower():
            r['status'] = 'timeout'
        if 'out of memory' in ln.lower() or 'std::bad_alloc' in ln:
            r['status'] = 'oom'
    return res


def short(full):
    return full.split('::')[-1]


def run_harnesses(ws, package, names, timeout_s, jobs=JOBS, modpath=None):
    cmd = ['cargo', 'kani', '-p', package] + KANI_FLAGS + ['--output-format', 'terse', '--harness-timeout', '%ds' % timeout_s, '-j', str(max(1, min(jobs, len(names))))]
    if modpath:
        cmd.append('--exact')
    for n in names:
        cmd += ['--harness', (modpath[n] + '::' + n) if modpath else n]
    env = env_offline()
    env['RUSTFLAGS'] = '--cfg cadence_verif'
    rc, out, err, wall = run(cmd, cwd=ws, timeout=timeout_s * 3 + 900, env=env)
    text = out + '\n' + err
    parsed = parse_terse(out)
    by_short = {}
    for full, r in parsed.items():
        by_short[short(full)] = r
    compile_error = None
    if not parsed:
        errs = [l for l in text.split('\n') if l.startswith('error')]
        compile_error = '\n'.join(errs[:10]) + '\n' + text[-1500:]
    return by_short, compile_error, wall, ' '.join(cmd)


def playback(ws, package, name, timeout_s):
    cmd = ['cargo', 'kani', '-p', package] + KANI_FLAGS + ['-Z', 'concrete-playback', '--concrete-playback=print', '--output-format', 'terse',
                                                           '--harness-timeout', '%ds' % timeout_s, '--harness', name]
    env = env_offline()
    env['RUSTFLAGS'] = '--cfg cadence_verif'
    rc, out, err, wall = run(cmd, cwd=ws, timeout=timeout_s + 600, env=env)
    tests = re.findall(r'Check for `(\w+)`: "(.*?)"\s*\n#\[test\]\nfn \w+\(\) \{\n\s*let concrete_vals: Vec<Vec<u8>> = vec!\[(.*?)\];', out, re.S)
    res = []
    for kind, desc, body in tests:
        if kind == 'cover':
            continue
        vals = [[int(x) for x in v.split(',') if x.strip()] for v in re.findall(r'vec!\[([\d,\s]*)\]', body)]
        res.append(dict(check=desc.strip('"'), values=vals))
    return res


def evaluate(group_names, prop, tier, res, timeout_s=None, only_quick=None, skip=None):
    groups_all = load_groups()
    groups = [groups_all[g] for g in group_names]
    timeout_s = timeout_s or (2400 if tier == 'thorough' else 900)
    ws, err = prepare_ws(groups)
    if ws is None:
        res.undecide('kani: ' + err)
        return []
    violations = []
    for pkg in sorted(set(g.package for g in groups)):
        hs = [h for g in groups if g.package == pkg for h in g.harnesses
              if prop in h.props and (tier == 'thorough' or h.tier == 'quick')]
        if only_quick is not None and tier != 'thorough':
            hs = [h for h in hs if any(h.name == o or (o.endswith('*') and h.name.startswith(o[:-1])) for o in only_quick)]
        if skip:
            hs = [h for h in hs if not any(h.name == o or (o.endswith('*') and h.name.startswith(o[:-1])) or (o.startswith('*') and o.endswith('*') and o[1:-1] in h.name) for o in skip)]
        if not hs:
            continue
        # the thorough tier contains harnesses of 5-17 GB each: fewer of them side by side (62 GB machine)
        # ... and the ones marked mem=heavy (15-26 GB each) one at a time, in a second invocation
        heavy = [h for h in hs if h.extra.get('mem') == 'heavy']
        light = [h for h in hs if h.extra.get('mem') != 'heavy']
        results, cerr, wall, cmd = {}, None, 0, ''
        if light:
            results, cerr, wall, cmd = run_harnesses(ws, pkg, [h.name for h in light], timeout_s, jobs=(min(JOBS, 6) if tier == 'thorough' else JOBS), modpath={h.name: h.group.modpath for h in light})
        if heavy and not cerr:
            r2, cerr, w2, cmd2 = run_harnesses(ws, pkg, [h.name for h in heavy], timeout_s, jobs=1, modpath={h.name: h.group.modpath for h in heavy})
            results.update(r2)
            cmd = cmd or cmd2
        res.checker_cmds.append(re.sub(r'(--harness \S+ ?)+', '--harness <%d harnesses> ' % len(hs), cmd))
        if cerr:
            res.undecide('kani: the harness modules no longer compile against the current tree (%s):\n%s' % (pkg, cerr[:1500]))
            continue
        for h in hs:
            r = results.get(h.name)
            name = 'kani:%s: %s' % (h.name, h.text)
            if r is None or r['status'] in ('unknown', 'timeout', 'oom'):
                res.undecide('kani: harness %s did not finish (%s)' % (h.name, (r or {}).get('status', 'no result')))
                continue
            tms = int((r['time_s'] or 0) * 1000)
            res.functions.append(dict(name=h.name, file=h.group.target, track='kani', covers=h.extra.get('fn', '')))
            if r['status'] == 'success':
                cov = r.get('cover')
                if cov and cov[0] < cov[1]:
                    res.undecide('kani: harness %s: only %d of %d cover properties satisfied (vacuity guard)' % (h.name, cov[0], cov[1]))
                    continue
                if not cov:
                    res.undecide('kani: harness %s has no cover property (vacuity guard)' % h.name)
                    continue
                res.add(name, h.group.name, 'kani/cbmc', 'discharged', time_ms=tms, bounded=h.bound)
            else:
                # failed: which checks? assertions carry "[Cnn] text"; unlabelled checks are Kani's
                # built-in safety checks (overflow, bounds, unwrap) => C20, and every property of the harness
                mine, other = [], []
                unsupported = [fc for fc in r['failed_checks'] if re.search(r'not currently supported by Kani|is not supported|unsupported construct|Unsupported', fc)]
                if unsupported:
                    # the code reached a construct Kani cannot interpret: no verdict, never an alarm
                    res.undecide('kani: harness %s reached a construct Kani does not support: %s' % (h.name, unsupported[0][:300]))
                    continue
                unwinding = [fc for fc in r['failed_checks'] if re.search(r'unwinding assertion', fc)]
                for fc in r['failed_checks']:
                    if fc in unwinding:
                        continue   # a bound of the tool, not an obligation of the property (see below)
                    m = re.match(r'"?\[([A-Z0-9, ]+)\]', fc)
                    if m:
                        (mine if prop in [p.strip() for p in m.group(1).split(',')] else other).append(fc)
                    else:
                        mine.append(fc)
                if not mine and unwinding:
                    # the changed code iterates or recurses deeper than the harness's unwinding bound and no
                    # obligation of this property failed within the bound: no verdict (never an alarm)
                    res.undecide('kani: harness %s: unwinding bound exceeded (%s)' % (h.name, unwinding[0][:200]))
                    continue
                if not mine:
                    # only obligations labelled for other properties failed
                    res.add(name, h.group.name, 'kani/cbmc', 'discharged', time_ms=tms, bounded=h.bound)
                    continue
                res.add(name, h.group.name, 'kani/cbmc', 'failed', time_ms=tms, bounded=h.bound, detail='; '.join(mine))
                pb = []
                try:
                    # concrete playback costs a second full run of the harness: only where the values
                    # can be mapped to a replay case (inputs declared) or the harness is cheap
                    if h.extra.get('inputs') or (r['time_s'] or 0) < 30:
                        pb = playback(ws, pkg, h.name, timeout_s)
                except Exception as e:  # playback is best effort
                    pb = [dict(check='playback failed: %r' % e, values=[])]
                violations.append(dict(obligation='kani:%s' % h.name, slug='kani_' + h.name, unit=h.group.name, backend='kani/cbmc',
                                       message='; '.join(mine)[:600], clause=h.text, rendered='\n'.join(r['raw'])[-3000:],
                                       repo_file=h.group.target, repo_line=None, family=h.family, kani_values=pb,
                                       inputs=h.extra.get('inputs')))
    for g in groups:
        for s in g.stubs:
            res.trusted.append('kani stub (callee replaced by its contract): %s [%s]' % (s, g.name))
    res.trusted.append('crossbeam-channel replaced by the specification shim /verif/kani/shims/crossbeam-channel (K2)')
    return violations
