"""Shared helpers: scratch directories, known-findings, evidence, reporting."""
import atexit
import json
import os
import re
import shutil
import subprocess
import sys
import tempfile
import time

VERIF = os.path.dirname(os.path.dirname(os.path.abspath(__file__)))
REPO = os.environ.get('VERIF_REPO', '/repo')
SCRATCH_ROOT = os.environ.get('VERIF_SCRATCH', '/var/tmp')
EVIDENCE_DIR = os.environ.get('VERIF_EVIDENCE_DIR') or os.path.join(VERIF, 'evidence')
REPLAY_DIR = os.path.join(EVIDENCE_DIR, 'replay')
KNOWN_FINDINGS = os.path.join(VERIF, 'known-findings.txt')

_scratch = []


def scratch_dir(tag='w'):
    d = tempfile.mkdtemp(prefix='cadence-verif.%s.' % tag, dir=SCRATCH_ROOT)
    _scratch.append(d)
    return d


def _cleanup():
    if os.environ.get('VERIF_KEEP'):
        return
    for d in _scratch:
        shutil.rmtree(d, ignore_errors=True)


atexit.register(_cleanup)


def env_offline():
    e = dict(os.environ)
    e['CARGO_NET_OFFLINE'] = 'true'
    e.pop('RUSTFLAGS', None)
    return e


def run(cmd, cwd=None, timeout=None, env=None, stdin=None):
    """returns (rc, stdout, stderr, wall_s); rc = -9 on timeout"""
    t0 = time.time()
    try:
        p = subprocess.run(cmd, cwd=cwd, env=env or env_offline(), stdout=subprocess.PIPE, stderr=subprocess.PIPE,
                           timeout=timeout, input=stdin, universal_newlines=True, errors='replace')
        return p.returncode, p.stdout, p.stderr, time.time() - t0
    except subprocess.TimeoutExpired as ex:
        out = ex.stdout if isinstance(ex.stdout, str) else (ex.stdout or b'').decode('utf8', 'replace')
        err = ex.stderr if isinstance(ex.stderr, str) else (ex.stderr or b'').decode('utf8', 'replace')
        return -9, out, err, time.time() - t0


def repo_head():
    rc, out, _, _ = run(['git', '-C', REPO, 'rev-parse', '--short', 'HEAD'])
    rc2, dirty, _, _ = run(['git', '-C', REPO, 'status', '--porcelain', '--untracked-files=no'])
    return out.strip() + ('+dirty' if dirty.strip() else '')


# ------------------------------------------------------------------------------------------
# known findings:   lines of the form
#   finding: property=C08 obligation=<obligation name> <free text>
#   fixed: property=C01 <commit> <what failed>
# A `finding:` entry suppresses exactly the named obligation of the named property.
# `fixed:` entries suppress nothing.
# ------------------------------------------------------------------------------------------
def load_known_findings():
    res = []
    if not os.path.exists(KNOWN_FINDINGS):
        return res
    for ln in open(KNOWN_FINDINGS):
        ln = ln.strip()
        if not ln or ln.startswith('#'):
            continue
        m = re.match(r'finding:\s+property=(\S+)\s+obligation=(\S+)\s*(.*)$', ln)
        if m:
            res.append(dict(property=m.group(1), obligation=m.group(2), text=m.group(3)))
    return res


class Result:
    """accumulates the outcome of one check run for one property"""

    def __init__(self, prop, tier, seed):
        self.prop = prop
        self.tier = tier
        self.seed = seed
        self.t0 = time.time()
        self.obligations = []     # dict(name, unit, backend, status, time_ms, detail, bounded)
        self.undecided = []       # strings
        self.trusted = []         # strings
        self.assumptions = []     # strings
        self.functions = []       # dict(name,file,line,track)
        self.notes = {}
        self.checker_cmds = []

    def add(self, name, unit, backend, status, time_ms=None, detail=None, bounded=None, replay_hint=None):
        assert status in ('discharged', 'failed')
        self.obligations.append(dict(name=name, unit=unit, backend=backend, status=status, time_ms=time_ms,
                                     detail=detail, bounded=bounded, replay_hint=replay_hint))

    def undecide(self, why):
        self.undecided.append(why)


def write_evidence(res, level, explanation, violations, extra=None):
    os.makedirs(EVIDENCE_DIR, exist_ok=True)
    obl = res.obligations
    unbounded = [o for o in obl if not o['bounded']]
    bounded = [o for o in obl if o['bounded']]
    cov = dict(
        obligations=len(unbounded),
        discharged=len([o for o in unbounded if o['status'] == 'discharged']),
        bounded_checks=[dict(name=o['name'], bound=o['bounded'], status=o['status'], back_end=o['backend'], time_ms=o['time_ms']) for o in bounded],
        checker_cmd=' ; '.join(res.checker_cmds) if res.checker_cmds else 'none',
        trusted_base=sorted(set(res.trusted)),
        explanation=explanation,
        functions_under_contract=res.functions,
        samples=[dict(obligation=o['name'], unit=o['unit'], back_end=o['backend'], status=o['status'], time_ms=o['time_ms'],
                      **({'bounded': o['bounded']} if o['bounded'] else {})) for o in obl],
        solver_time_ms=sum((o['time_ms'] or 0) for o in obl),
        undecided=res.undecided,
        repo_head=repo_head(),
    )
    cov.update(res.notes)
    if extra:
        cov.update(extra)
    ev = dict(property_id=res.prop, tier=res.tier, seed=res.seed, level=level, coverage=cov,
              assumptions=sorted(set(res.assumptions)), wall_s=round(time.time() - res.t0, 2), violations=violations)
    path = os.path.join(EVIDENCE_DIR, res.prop + '.json')
    tmp = path + '.tmp'
    json.dump(ev, open(tmp, 'w'), indent=1)
    os.replace(tmp, path)
    return path


def say(*a):
    print(*a, flush=True)
