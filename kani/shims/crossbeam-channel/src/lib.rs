//! Sequential specification shim of the crossbeam-channel API subset used by cadence.
use std::cell::Cell;
use std::sync::atomic::{AtomicUsize, Ordering};
use std::sync::Arc;

/// number of times a consumer called the blocking `recv()` on an EMPTY channel whose senders are
/// alive, i.e. the number of times the real consumer thread would have parked (possibly forever)
pub static WOULD_BLOCK: AtomicUsize = AtomicUsize::new(0);

/// rely: one-shot interference at the entry of a blocking receive. A harness installs a function
/// that performs what ANOTHER thread does between the consumer's last check and its recv()
/// (for example the last handle's drop requesting the stop).
pub static mut BEFORE_RECV: Option<fn()> = None;
fn interfere_before_recv() {
    #[allow(static_mut_refs)]
    let f = unsafe { BEFORE_RECV.take() };
    if let Some(f) = f { f(); }
}

pub const SLOTS: usize = 3;
/// `parked`: the consumer is blocked inside recv() on an empty channel (set when a receive would
/// block, cleared when a receive is entered). `timeouts`: consecutive timed receives that found the
/// channel empty. A ZERO-capacity channel (`cap == Some(0)`) is a rendezvous: a send succeeds only
/// while the consumer is parked, and the message is then in the consumer's hands (slot 0).
pub struct Inner<T> { pub q: [Cell<Option<T>>; SLOTS], pub len: Cell<usize>, pub cap: Option<usize>, pub parked: Cell<bool>, pub timeouts: Cell<usize> }
unsafe impl<T: Send> Sync for Inner<T> {}
unsafe impl<T: Send> Send for Inner<T> {}
impl<T> std::panic::RefUnwindSafe for Inner<T> {}
impl<T> std::panic::UnwindSafe for Inner<T> {}
pub struct Sender<T> { pub inner: Arc<Inner<T>> }
pub struct Receiver<T> { pub inner: Arc<Inner<T>> }
impl<T> Clone for Sender<T> { fn clone(&self) -> Self { Sender { inner: self.inner.clone() } } }
impl<T> Clone for Receiver<T> { fn clone(&self) -> Self { Receiver { inner: self.inner.clone() } } }
impl<T> std::fmt::Debug for Sender<T> { fn fmt(&self, f: &mut std::fmt::Formatter<'_>) -> std::fmt::Result { f.write_str("Sender") } }
impl<T> std::fmt::Debug for Receiver<T> { fn fmt(&self, f: &mut std::fmt::Formatter<'_>) -> std::fmt::Result { f.write_str("Receiver") } }

#[derive(Debug)]
pub enum TrySendError<T> { Full(T), Disconnected(T) }
#[derive(Debug)]
pub enum TryRecvError { Empty, Disconnected }
/// In the real crate `recv()` blocks while the channel is empty and a sender is alive. The shim
/// is sequential: "would block" is the quiescent point of the consumer and is reported as Err.
#[derive(Debug)]
pub struct RecvError;
#[derive(Debug)]
pub enum RecvTimeoutError { Timeout, Disconnected }

fn mk<T>(cap: Option<usize>) -> (Sender<T>, Receiver<T>) {
    let i = Arc::new(Inner { q: [Cell::new(None), Cell::new(None), Cell::new(None)], len: Cell::new(0), cap, parked: Cell::new(false), timeouts: Cell::new(0) });
    (Sender { inner: i.clone() }, Receiver { inner: i })
}
pub fn bounded<T>(cap: usize) -> (Sender<T>, Receiver<T>) { mk(Some(cap)) }
pub fn unbounded<T>() -> (Sender<T>, Receiver<T>) { mk(None) }
impl<T> Sender<T> {
    pub fn len(&self) -> usize { self.inner.len.get() }
    pub fn is_empty(&self) -> bool { self.inner.len.get() == 0 }
    pub fn capacity(&self) -> Option<usize> { self.inner.cap }
    pub fn is_full(&self) -> bool { self.inner.cap.map_or(false, |c| self.inner.len.get() >= c) }
    pub fn try_send(&self, msg: T) -> Result<(), TrySendError<T>> {
        let n = self.inner.len.get();
        if self.inner.cap == Some(0) {
            // rendezvous: only a consumer that is parked in recv() right now can take the message
            if !(self.inner.parked.get() && n == 0) { return Err(TrySendError::Full(msg)); }
            self.inner.parked.set(false);
            self.inner.q[0].set(Some(msg));
            self.inner.len.set(1);
            return Ok(());
        }
        if let Some(c) = self.inner.cap { if n >= c { return Err(TrySendError::Full(msg)); } }
        // verification bound: the shim holds at most SLOTS entries
        #[cfg(kani)] kani::assume(n < SLOTS);
        self.inner.q[n].set(Some(msg));
        self.inner.len.set(n + 1);
        Ok(())
    }
}
impl<T> Receiver<T> {
    pub fn try_recv(&self) -> Result<T, TryRecvError> {
        let n = self.inner.len.get();
        if n == 0 { return Err(TryRecvError::Empty); }
        let v = match self.inner.q[0].take() { Some(v) => v, None => return Err(TryRecvError::Empty) };
        let mut i = 1;
        while i < SLOTS { self.inner.q[i - 1].set(self.inner.q[i].take()); i += 1; }
        self.inner.len.set(n - 1);
        Ok(v)
    }
    pub fn recv(&self) -> Result<T, RecvError> {
        self.inner.parked.set(false);
        interfere_before_recv();
        if self.inner.len.get() == 0 { WOULD_BLOCK.fetch_add(1, Ordering::SeqCst); self.inner.parked.set(true); }
        self.try_recv().map_err(|_| RecvError)
    }
    /// Timed receive. On an empty channel the FIRST call reports `Timeout` (the timer fired: the
    /// caller gets to look at its own state again); a second consecutive one is the quiescent point
    /// of the consumer (nothing can change any more in a sequential execution) and is reported as
    /// `Disconnected`, like the blocking `recv()`.
    pub fn recv_timeout(&self, _d: std::time::Duration) -> Result<T, RecvTimeoutError> {
        self.inner.parked.set(false);
        interfere_before_recv();
        if self.inner.len.get() == 0 {
            if self.inner.timeouts.get() == 0 { self.inner.timeouts.set(1); return Err(RecvTimeoutError::Timeout); }
            WOULD_BLOCK.fetch_add(1, Ordering::SeqCst);
            self.inner.parked.set(true);
            self.inner.timeouts.set(0);
            return Err(RecvTimeoutError::Disconnected);
        }
        self.inner.timeouts.set(0);
        self.try_recv().map_err(|_| RecvTimeoutError::Disconnected)
    }
    pub fn capacity(&self) -> Option<usize> { self.inner.cap }
    pub fn is_full(&self) -> bool { self.inner.cap.map_or(false, |c| self.inner.len.get() >= c) }
    pub fn is_empty(&self) -> bool { self.inner.len.get() == 0 }
    pub fn len(&self) -> usize { self.inner.len.get() }
    pub fn iter(&self) -> Iter<'_, T> { Iter { r: self } }
}
pub struct Iter<'a, T> { r: &'a Receiver<T> }
impl<'a, T> Iterator for Iter<'a, T> {
    type Item = T;
    fn next(&mut self) -> Option<T> { self.r.recv().ok() }
}
