//@APPEND cadence/src/io.rs
// Cross-check of the TRUSTED BufWriter model of contracts/io.rs (model::BufWriter::{write,flush}) against
// the real std::io::BufWriter over an all-or-nothing recording writer (bounded: model validation, not a
// property obligation), and a bounded end-to-end check of the real MultiLineWriter on top of it.
#[cfg(kani)]
mod verif_bufwriter {
    use super::*;
    use std::sync::atomic::{AtomicUsize, Ordering};

    static CALLS: AtomicUsize = AtomicUsize::new(0);
    static LENS: [AtomicUsize; 3] = [AtomicUsize::new(0), AtomicUsize::new(0), AtomicUsize::new(0)];
    static FAIL: [AtomicUsize; 3] = [AtomicUsize::new(0), AtomicUsize::new(0), AtomicUsize::new(0)];

    /// all-or-nothing datagram writer: records the length of every write offered, fails as scripted
    struct Rec;
    impl Write for Rec {
        fn write(&mut self, buf: &[u8]) -> io::Result<usize> {
            let k = CALLS.fetch_add(1, Ordering::SeqCst);
            if k < 3 { LENS[k].store(buf.len(), Ordering::SeqCst); }
            if k < 3 && FAIL[k].load(Ordering::SeqCst) == 1 { Err(io::Error::from(io::ErrorKind::ConnectionRefused)) } else { Ok(buf.len()) }
        }
        fn flush(&mut self) -> io::Result<()> { Ok(()) }
    }
    fn script() -> [bool; 3] {
        let f: [bool; 3] = [kani::any(), kani::any(), kani::any()];
        let mut i = 0;
        while i < 3 { FAIL[i].store(f[i] as usize, Ordering::SeqCst); i += 1; }
        f
    }
    static DATA: [u8; 5] = [b'a', b'b', b'c', b'd', b'e'];

    macro_rules! bw_write {
        ($name:ident, $cap:expr, $pre:expr, $n:expr) => {
            #[kani::proof]
            #[kani::unwind(8)]
            fn $name() {
                let mut w = BufWriter::with_capacity($cap, Rec);
                if $pre > 0 { assert!(matches!(w.write(&DATA[..$pre]), Ok($pre))); }
                assert!(CALLS.load(Ordering::SeqCst) == 0 && w.buffer().len() == $pre, "pre-state: $pre bytes buffered, nothing sent");
                let f = script();
                let r = w.write(&DATA[..$n]);
                let calls = CALLS.load(Ordering::SeqCst);
                if $n + $pre <= $cap && $n < $cap {
                    assert!(matches!(r, Ok(k) if k == $n) && calls == 0 && w.buffer().len() == $pre + $n, "[model] fast path: buffered, no socket activity");
                } else if $n + $pre > $cap {
                    // flush_buf first
                    if $pre > 0 {
                        assert!(calls >= 1 && LENS[0].load(Ordering::SeqCst) == $pre, "[model] cold path: the whole buffer is offered as ONE write first");
                        if f[0] {
                            assert!(r.is_err() && calls == 1 && w.buffer().len() == $pre, "[model] failed flush_buf: error returned, buffer kept, input not written");
                        }
                    }
                    let base = if $pre > 0 { 1 } else { 0 };
                    if $pre == 0 || !f[0] {
                        if $n >= $cap {
                            assert!(calls == base + 1 && LENS[base].load(Ordering::SeqCst) == $n && w.buffer().is_empty(), "[model] input at least buffer-sized: written directly as its own datagram");
                            assert!(r.is_ok() == !f[base], "[model] direct write returns the inner result");
                        } else {
                            assert!(calls == base && matches!(r, Ok(k) if k == $n) && w.buffer().len() == $n, "[model] after the flush the input is buffered");
                        }
                    }
                } else {
                    assert!(calls == 1 && LENS[0].load(Ordering::SeqCst) == $n && w.buffer().len() == $pre && r.is_ok() == !f[0], "[model] buffer-sized input into an empty buffer: direct write");
                }
                kani::cover!(true, "end");
                std::mem::forget(r); std::mem::forget(w);
            }
        };
    }
    //@H name=bw_write_c4_p2_n1 props=C05,C06,C07,C19 tier=thorough bound="BufWriter model cross-check: cap 4, 2 buffered, write 1" fn=std::io::BufWriter::write :: real BufWriter agrees with the model (fast path)
    bw_write!(bw_write_c4_p2_n1, 4, 2, 1);
    //@H name=bw_write_c4_p2_n2 props=C05,C06,C07,C19 tier=thorough bound="BufWriter model cross-check: cap 4, 2 buffered, write 2 (exact fill)" fn=std::io::BufWriter::write :: real BufWriter agrees with the model (exact fill is buffered)
    bw_write!(bw_write_c4_p2_n2, 4, 2, 2);
    //@H name=bw_write_c4_p2_n3 props=C05,C06,C07,C19 tier=thorough bound="BufWriter model cross-check: cap 4, 2 buffered, write 3 (cold path)" fn=std::io::BufWriter::write :: real BufWriter agrees with the model (flush_buf then buffer; failure keeps the buffer)
    bw_write!(bw_write_c4_p2_n3, 4, 2, 3);
    //@H name=bw_write_c4_p2_n5 props=C05,C06,C07,C19 tier=thorough bound="BufWriter model cross-check: cap 4, 2 buffered, write 5 (cold path + direct)" fn=std::io::BufWriter::write :: real BufWriter agrees with the model (flush_buf then direct write)
    bw_write!(bw_write_c4_p2_n5, 4, 2, 5);
    //@H name=bw_write_c4_p0_n4 props=C05,C06,C07,C19 tier=thorough bound="BufWriter model cross-check: cap 4, empty, write 4" fn=std::io::BufWriter::write :: real BufWriter agrees with the model (buffer-sized input into empty buffer: direct)
    bw_write!(bw_write_c4_p0_n4, 4, 0, 4);
    //@H name=bw_write_c0_p0_n1 props=C05,C06,C07,C19 tier=thorough bound="BufWriter model cross-check: cap 0, write 1" fn=std::io::BufWriter::write :: real BufWriter with capacity 0 writes everything directly
    bw_write!(bw_write_c0_p0_n1, 0, 0, 1);

    //@H name=bw_flush props=C05,C06,C07,C19 tier=thorough bound="BufWriter model cross-check: cap 4, 0..=3 buffered" fn=std::io::BufWriter::flush :: real BufWriter::flush agrees with the model: empty => no write; else ONE write of everything; success empties, failure keeps
    #[kani::proof]
    #[kani::unwind(8)]
    fn bw_flush() {
        let mut w = BufWriter::with_capacity(4, Rec);
        let pre: usize = kani::any();
        kani::assume(pre <= 3);
        if pre > 0 { assert!(w.write(&DATA[..pre]).is_ok()); }
        let f = script();
        let r = w.flush();
        let calls = CALLS.load(Ordering::SeqCst);
        if pre == 0 {
            assert!(r.is_ok() && calls == 0, "[model] flushing an empty buffer makes no write");
        } else {
            assert!(calls == 1 && LENS[0].load(Ordering::SeqCst) == pre, "[model] the whole buffer goes out as ONE write");
            if f[0] { assert!(r.is_err() && w.buffer().len() == pre, "[model] failure keeps the buffer"); } else { assert!(r.is_ok() && w.buffer().is_empty(), "[model] success empties the buffer"); }
        }
        kani::cover!(pre == 3, "three bytes");
        std::mem::forget(r); std::mem::forget(w);
    }

    static PAYLOAD_OK: AtomicUsize = AtomicUsize::new(1);
    //@H name=mlw_end_to_end props=C05,C06,C07,C19 tier=thorough bound="real MultiLineWriter + real BufWriter: cap 6, newline terminator, three writes of 1..=3 bytes, symbolic failures" fn=MultiLineWriter::write,flush (bounded, on the real BufWriter) :: every datagram is whole lines within capacity; lengths add up to what was acknowledged
    #[kani::proof]
    #[kani::unwind(10)]
    fn mlw_end_to_end() {
        let mut w = MultiLineWriter::new(Rec, 6);
        let f = script();
        let n1: usize = kani::any(); let n2: usize = kani::any();
        kani::assume(n1 >= 1 && n1 <= 3 && n2 >= 1 && n2 <= 3);
        let r1 = w.write(&DATA[..n1]);
        let r2 = w.write(&DATA[..n2]);
        let r3 = w.flush();
        let calls = CALLS.load(Ordering::SeqCst);
        let mut acked = 0;
        if r1.is_ok() { acked += n1 + 1; }
        if r2.is_ok() { acked += n2 + 1; }
        let mut sent = 0; let mut k = 0;
        while k < 3 { if k < calls && !f[k] { sent += LENS[k].load(Ordering::SeqCst); } if k < calls { assert!(LENS[k].load(Ordering::SeqCst) <= 6, "[C05] no datagram exceeds the capacity"); } k += 1; }
        if r3.is_ok() { assert!(sent == acked && w.verif_buffered().is_empty(), "[C06,C07] after a successful flush exactly the acknowledged lines are on the wire, nothing is buffered"); }
        else { assert!(sent + w.verif_buffered().len() == acked, "[C07] after a failed flush every acknowledged line is either on the wire or still buffered, once"); }
        if n1 + 1 + n2 + 1 < 6 && !f[0] { assert!(calls == 1 && LENS[0].load(Ordering::SeqCst) == n1 + n2 + 2, "[C19] two metrics that fit are coalesced into one datagram"); }
        kani::cover!(calls == 2, "two datagrams");
        std::mem::forget(r1); std::mem::forget(r2); std::mem::forget(r3); std::mem::forget(w);
    }
}
