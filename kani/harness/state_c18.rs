//@APPEND cadence-macros/src/state.rs
// C18: the three real SingletonHolder methods under the rely/guarantee protocol of the
// cfg(cadence_verif) shim (cadence-macros/src/verif_shim.rs): every atomic operation of the
// method under proof is preceded by arbitrary protocol steps of other threads; the shim asserts
// the guarantee (orderings, ownership of the cell) on every primitive operation.
#[cfg(kani)]
mod verif_state {
    use super::*;
    use crate::verif_shim::ghost;

    //@H name=c18_set props=C18,C20 fn=SingletonHolder::set :: set under arbitrary interference: elects at most one writer by CAS(Acquire), writes the cell before a Release store; the winner's value is what later gets return; a loser touches nothing
    #[kani::proof]
    fn c18_set() {
        let h: SingletonHolder<u8> = SingletonHolder::new();
        ghost::reset(kani::any());
        h.set(7);
        if ghost::i_won() {
            let g = h.get();
            assert!(matches!(g, Some(ref a) if **a == 7), "[C18] after my set won, get returns the winning value, fully constructed");
            assert!(h.is_set(), "[C18] after a completed set, is_set reports true");
        } else {
            assert!(ghost::other_won(), "[C18] a set that did not win lost to another elected writer");
        }
        kani::cover!(ghost::i_won(), "won the election");
        kani::cover!(!ghost::i_won(), "lost the election");
    }

    //@H name=c18_set_twice props=C17,C18,C20 fn=SingletonHolder::set :: first set wins: a later set never replaces or disturbs the stored value
    #[kani::proof]
    fn c18_set_twice() {
        let h: SingletonHolder<u8> = SingletonHolder::new();
        ghost::reset(false);
        h.set(7);
        // (checked on one side of an arbitrary branch so that the execution is not cut off behind it)
        if kani::any::<bool>() { assert!(ghost::i_won(), "[C18] without competitors the first set wins"); }
        let p1 = h.get().map(|a| Arc::as_ptr(&a));
        h.set(9);
        let g = h.get();
        assert!(matches!(g, Some(ref a) if **a == 7), "[C17,C18] later sets are ignored: the global default client the macros send on is the FIRST one set, for good");
        assert!(g.map(|a| Arc::as_ptr(&a)) == p1, "[C18] every get returns the same instance");
        kani::cover!(true, "end");
    }

    //@H name=c18_get props=C18,C20 fn=SingletonHolder::get,is_set :: get/is_set under arbitrary interference: report not-set unless COMPLETE was observed by an Acquire load; the cell is read only after that
    #[kani::proof]
    fn c18_get() {
        let h: SingletonHolder<u8> = SingletonHolder::new();
        ghost::reset(kani::any());
        let g = h.get();
        assert!(g.is_none() || ghost::acquired_complete(), "[C18] a value is returned only after an Acquire load observed COMPLETE");
        let s = h.is_set();
        assert!(!s || ghost::other_published(), "[C18] is_set is true only once a set has completed");
        kani::cover!(g.is_none(), "not set observed");
        kani::cover!(s, "set observed");
        std::mem::forget(g);
    }

    //@H name=c18_unset props=C17,C18,C20 fn=SingletonHolder::new,get,is_set :: a fresh holder reports not set (the macros then panic)
    #[kani::proof]
    fn c18_unset() {
        let h: SingletonHolder<u8> = SingletonHolder::new();
        ghost::reset(false);
        assert!(h.get().is_none() && !h.is_set(), "[C18] until a set has completed, reads report that none is set");
        kani::cover!(true, "end");
    }
}
