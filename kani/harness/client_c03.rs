//@APPEND cadence/src/client.rs
// C03 (+C01 plumbing "single emit of the formatted text"): Hoare triples on the real
// try_send / send / send_metric / consume_error / MetricError paths for every entry point.
// MetricFormatter::format is replaced by its contract (an arbitrary string; its real contract
// is the Verus proof of C01) -- see DESIGN 2.2.
#[cfg(kani)]
pub(crate) mod verif_client {
    use super::*;
    use std::io;
    use std::sync::atomic::{AtomicUsize, Ordering};

    pub(crate) static CALLS: AtomicUsize = AtomicUsize::new(0);
    pub(crate) static PTR: AtomicUsize = AtomicUsize::new(0);
    pub(crate) static LEN: AtomicUsize = AtomicUsize::new(0);
    pub(crate) static ERRS: AtomicUsize = AtomicUsize::new(0);
    pub(crate) static ERR_KIND: AtomicUsize = AtomicUsize::new(99); // 0 = InvalidInput, 1 = IoError
    pub(crate) static ERR_IO: AtomicUsize = AtomicUsize::new(99);   // index of the io::ErrorKind carried
    /// scripted outcome of the sink for call #0 and call #1: 0 = accept, k+1 = refuse with kind k
    pub(crate) static SCRIPT: [AtomicUsize; 2] = [AtomicUsize::new(0), AtomicUsize::new(0)];
    pub(crate) static CUR: AtomicUsize = AtomicUsize::new(0);

    pub(crate) fn io_kind(i: usize) -> io::ErrorKind {
        match i { 0 => io::ErrorKind::WouldBlock, 1 => io::ErrorKind::ConnectionRefused, 2 => io::ErrorKind::Interrupted, 3 => io::ErrorKind::BrokenPipe, _ => io::ErrorKind::Other }
    }
    pub(crate) fn io_kind_index(k: io::ErrorKind) -> usize {
        match k { io::ErrorKind::WouldBlock => 0, io::ErrorKind::ConnectionRefused => 1, io::ErrorKind::Interrupted => 2, io::ErrorKind::BrokenPipe => 3, _ => 4 }
    }

    /// the sink's contract as seen by the client: records every string it is handed, answers as scripted
    pub(crate) struct Scripted;
    impl MetricSink for Scripted {
        fn emit(&self, m: &str) -> io::Result<usize> {
            CALLS.fetch_add(1, Ordering::SeqCst);
            PTR.store(m.as_ptr() as usize, Ordering::SeqCst);
            LEN.store(m.len(), Ordering::SeqCst);
            let n = CUR.load(Ordering::SeqCst);
            let s = if n < 2 { SCRIPT[n].load(Ordering::SeqCst) } else { 0 };
            if s == 0 { Ok(m.len()) } else { Err(io::Error::from(io_kind(s - 1))) }
        }
    }

    fn record_error(e: MetricError) {
        ERRS.fetch_add(1, Ordering::SeqCst);
        ERR_KIND.store(match e.kind() { ErrorKind::InvalidInput => 0, ErrorKind::IoError => 1 }, Ordering::SeqCst);
        if let Some(k) = e.verif_io_kind() {
            ERR_IO.store(io_kind_index(k), Ordering::SeqCst);
        }
        std::mem::forget(e);
    }

    /// a client value built by struct literal (Kani 0.68 crashes on Box::new(nop_error_handler))
    pub(crate) fn mk_client(prefix: String, tags: Vec<(Option<String>, String)>, container_id: Option<String>) -> StatsdClient {
        StatsdClient { prefix, sink: Box::new(Scripted), errors: Box::new(|e: MetricError| record_error(e)), tags, container_id }
    }
    pub(crate) fn prefix_of(c: &StatsdClient) -> &str { &c.prefix }
    pub(crate) fn tags_of(c: &StatsdClient) -> &Vec<(Option<String>, String)> { &c.tags }
    pub(crate) fn cid_of(c: &StatsdClient) -> Option<&str> { c.container_id.as_deref() }

    /// contract stand-in for MetricFormatter::format: some non-empty string (1 or 2 bytes)
    pub(crate) fn format_stub<'a>(_f: &MetricFormatter<'a>) -> String where 'a: 'a {
        if kani::any() { String::from("a") } else { String::from("bc") }
    }

    pub(crate) fn script(n: usize) -> usize {
        let s: usize = kani::any();
        kani::assume(s <= 5);
        SCRIPT[n].store(s, Ordering::SeqCst);
        CUR.store(n, Ordering::SeqCst);
        s
    }

    /// postcondition of one `try_send`-style call
    macro_rules! check_try {
        ($r:expr, $valid:expr, $s:expr, $calls_before:expr) => {{
            let calls = CALLS.load(Ordering::SeqCst);
            if $valid {
                assert!(calls == $calls_before + 1, "[C03] a valid value hands the sink exactly one string");
                match $r {
                    Ok(ref m) => {
                        assert!($s == 0, "[C03] Ok is returned only if the sink accepted the metric during this call");
                        assert!(PTR.load(Ordering::SeqCst) == m.as_metric_str().as_ptr() as usize && LEN.load(Ordering::SeqCst) == m.as_metric_str().len(),
                            "[C01,C03] the text handed to the sink is exactly the text of the returned metric");
                    }
                    Err(ref e) => {
                        assert!($s != 0, "[C03] an error is returned only if the sink refused the metric");
                        assert!(e.kind() == ErrorKind::IoError, "[C03] a sink refusal is reported as an I/O-kind error");
                        assert!(e.verif_io_kind() == Some(io_kind($s - 1)), "[C03] the I/O error carries the sink's own error");
                    }
                }
            } else {
                assert!(calls == $calls_before, "[C02,C03] a rejected value hands the sink nothing");
                assert!(matches!($r, Err(ref e) if e.kind() == ErrorKind::InvalidInput), "[C03] a rejected value is reported as an invalid-input error");
            }
        }};
    }

    /// postcondition of one quiet `send`
    macro_rules! check_send {
        ($valid:expr, $s:expr, $calls_before:expr, $errs_before:expr) => {{
            let calls = CALLS.load(Ordering::SeqCst);
            let errs = ERRS.load(Ordering::SeqCst);
            if $valid {
                assert!(calls == $calls_before + 1, "[C03] quiet send of a valid value hands the sink exactly one string");
                if $s == 0 {
                    assert!(errs == $errs_before, "[C03,C17] the error handler is never invoked on success");
                } else {
                    assert!(errs == $errs_before + 1, "[C03,C17] the error handler is invoked exactly once when the sink refuses");
                    assert!(ERR_KIND.load(Ordering::SeqCst) == 1 && ERR_IO.load(Ordering::SeqCst) == io_kind_index(io_kind($s - 1)),
                        "[C03,C17] the handler receives the I/O-kind error carrying the sink's own error");
                }
            } else {
                assert!(calls == $calls_before, "[C02,C03] quiet send of a rejected value hands the sink nothing");
                assert!(errs == $errs_before + 1 && ERR_KIND.load(Ordering::SeqCst) == 0, "[C03,C17] the handler is invoked exactly once with the invalid-input error");
            }
        }};
    }

    macro_rules! entry {
        ($plain_name:ident, $quiet_name:ident, $method:ident, $method_tags:ident, $mk:expr, $valid:expr) => {
            #[kani::proof]
            #[kani::unwind(6)]
            #[kani::stub(crate::builder::MetricFormatter::format, format_stub)]
            fn $plain_name() {
                let client = mk_client(String::from("p."), Vec::new(), None);
                let s0 = script(0);
                let (v, valid) = $mk;
                let r = client.$method("k", v);
                check_try!(r, valid, s0, 0);
                kani::cover!(r.is_ok(), "accepted");
                kani::cover!(r.is_err(), "refused or rejected");
                std::mem::forget(r);
                // a second call on the same client with an independent sink outcome
                let s1 = script(1);
                let before = CALLS.load(Ordering::SeqCst);
                let (v2, valid2) = $mk;
                let r2 = client.$method_tags("k", v2).try_send();
                check_try!(r2, valid2, s1, before);
                std::mem::forget(r2);
                std::mem::forget(client);
            }

            #[kani::proof]
            #[kani::unwind(6)]
            #[kani::stub(crate::builder::MetricFormatter::format, format_stub)]
            fn $quiet_name() {
                let client = mk_client(String::from("p."), Vec::new(), None);
                let s0 = script(0);
                let (v, valid) = $mk;
                client.$method_tags("k", v).send();
                check_send!(valid, s0, 0, 0);
                kani::cover!(ERRS.load(Ordering::SeqCst) == 0, "success");
                kani::cover!(ERRS.load(Ordering::SeqCst) == 1, "failure");
                std::mem::forget(client);
            }
        };
    }

    fn any_dur() -> (Duration, u64, u32) {
        let secs: u64 = kani::any();
        let nanos: u32 = kani::any();
        kani::assume(nanos < 1_000_000_000);
        (Duration::new(secs, nanos), secs, nanos)
    }
    // validity of a Duration is decided here without 128-bit arithmetic: the one boundary second is
    // excluded (the exact boundary is the obligation of the C02 conversion contracts)
    fn dur_ms_exact() -> (Duration, bool) {
        let (d, s, _n) = any_dur();
        kani::assume(s != u64::MAX / 1000);
        (d, s < u64::MAX / 1000)
    }
    fn dur_ns_exact() -> (Duration, bool) {
        let (d, s, _n) = any_dur();
        kani::assume(s != u64::MAX / 1_000_000_000);
        (d, s < u64::MAX / 1_000_000_000)
    }
    fn vec1<T>(x: T) -> Vec<T> { let mut v = Vec::with_capacity(1); v.push(x); v }
    fn vec_or_empty<T>(x: T) -> (Vec<T>, bool) { if kani::any() { (vec1(x), true) } else { (Vec::new(), false) } }

    //@H name=c03_count_i64_try props=C01,C03,C20 fn=Counted<i64>::count,count_with_tags+try_send :: count(i64): one emit, truthful result (two consecutive calls, independent sink outcomes)
    //@H name=c03_count_i64_send props=C03,C20,C17 fn=Counted<i64>::count_with_tags+send :: count(i64) quiet form: handler exactly once iff failure
    entry!(c03_count_i64_try, c03_count_i64_send, count, count_with_tags, (kani::any::<i64>(), true), true);
    //@H name=c03_count_i32_try props=C01,C03,C20 tier=thorough fn=Counted<i32> :: count(i32): one emit, truthful result
    //@H name=c03_count_i32_send props=C03,C20 tier=thorough fn=Counted<i32> :: count(i32) quiet form
    entry!(c03_count_i32_try, c03_count_i32_send, count, count_with_tags, (kani::any::<i32>(), true), true);
    //@H name=c03_count_u64_try props=C01,C03,C20 tier=thorough fn=Counted<u64> :: count(u64): one emit, truthful result
    //@H name=c03_count_u64_send props=C03,C20 tier=thorough fn=Counted<u64> :: count(u64) quiet form
    entry!(c03_count_u64_try, c03_count_u64_send, count, count_with_tags, (kani::any::<u64>(), true), true);
    //@H name=c03_count_u32_try props=C01,C03,C20 tier=thorough fn=Counted<u32> :: count(u32): one emit, truthful result
    //@H name=c03_count_u32_send props=C03,C20 tier=thorough fn=Counted<u32> :: count(u32) quiet form
    entry!(c03_count_u32_try, c03_count_u32_send, count, count_with_tags, (kani::any::<u32>(), true), true);
    //@H name=c03_time_u64_try props=C01,C03,C20 tier=thorough fn=Timed<u64> :: time(u64): one emit, truthful result
    //@H name=c03_time_u64_send props=C03,C20 tier=thorough fn=Timed<u64> :: time(u64) quiet form
    entry!(c03_time_u64_try, c03_time_u64_send, time, time_with_tags, (kani::any::<u64>(), true), true);
    //@H name=c03_time_duration_try props=C01,C02,C03,C20 fn=Timed<Duration> :: time(Duration): one emit when the value fits, none and InvalidInput when it does not
    //@H name=c03_time_duration_send props=C02,C03,C20,C17 fn=Timed<Duration> :: time(Duration) quiet form: handler gets InvalidInput for an overflowing Duration, nothing is sent
    entry!(c03_time_duration_try, c03_time_duration_send, time, time_with_tags, dur_ms_exact(), true);
    //@H name=c03_time_vec_u64_try props=C01,C03,C20 tier=thorough fn=Timed<Vec<u64>> :: time(Vec<u64>): one emit; the empty list is rejected and nothing is sent
    //@H name=c03_time_vec_u64_send props=C03,C20 tier=thorough fn=Timed<Vec<u64>> :: time(Vec<u64>) quiet form
    entry!(c03_time_vec_u64_try, c03_time_vec_u64_send, time, time_with_tags, vec_or_empty(kani::any::<u64>()), true);
    //@H name=c03_time_vec_duration_try mem=heavy props=C01,C02,C03,C20 tier=thorough fn=Timed<Vec<Duration>> :: time(Vec<Duration>) (length 0..1): overflow or empty => InvalidInput and nothing sent
    //@H name=c03_time_vec_duration_send mem=heavy props=C02,C03,C20 tier=thorough fn=Timed<Vec<Duration>> :: time(Vec<Duration>) quiet form
    entry!(c03_time_vec_duration_try, c03_time_vec_duration_send, time, time_with_tags, { let (d, ok) = dur_ms_exact(); let (v, ne) = vec_or_empty(d); (v, ok && ne || (!ne && false)) }, true);
    //@H name=c03_gauge_u64_try props=C01,C03,C20 tier=thorough fn=Gauged<u64> :: gauge(u64): one emit, truthful result
    //@H name=c03_gauge_u64_send props=C03,C20 tier=thorough fn=Gauged<u64> :: gauge(u64) quiet form
    entry!(c03_gauge_u64_try, c03_gauge_u64_send, gauge, gauge_with_tags, (kani::any::<u64>(), true), true);
    //@H name=c03_gauge_f64_try props=C01,C03,C20 fn=Gauged<f64> :: gauge(f64), any bit pattern incl. NaN/inf: one emit, truthful result
    //@H name=c03_gauge_f64_send props=C03,C20 fn=Gauged<f64> :: gauge(f64) quiet form
    entry!(c03_gauge_f64_try, c03_gauge_f64_send, gauge, gauge_with_tags, (kani::any::<f64>(), true), true);
    //@H name=c03_meter_u64_try props=C01,C03,C20 fn=Metered<u64> :: meter(u64): one emit, truthful result
    //@H name=c03_meter_u64_send props=C03,C20 fn=Metered<u64> :: meter(u64) quiet form
    entry!(c03_meter_u64_try, c03_meter_u64_send, meter, meter_with_tags, (kani::any::<u64>(), true), true);
    //@H name=c03_hist_u64_try props=C01,C03,C20 tier=thorough fn=Histogrammed<u64> :: histogram(u64): one emit, truthful result
    //@H name=c03_hist_u64_send props=C03,C20 tier=thorough fn=Histogrammed<u64> :: histogram(u64) quiet form
    entry!(c03_hist_u64_try, c03_hist_u64_send, histogram, histogram_with_tags, (kani::any::<u64>(), true), true);
    //@H name=c03_hist_f64_try props=C01,C03,C20 tier=thorough fn=Histogrammed<f64> :: histogram(f64): one emit, truthful result
    //@H name=c03_hist_f64_send props=C03,C20 tier=thorough fn=Histogrammed<f64> :: histogram(f64) quiet form
    entry!(c03_hist_f64_try, c03_hist_f64_send, histogram, histogram_with_tags, (kani::any::<f64>(), true), true);
    //@H name=c03_hist_duration_try props=C01,C02,C03,C20 fn=Histogrammed<Duration> :: histogram(Duration): one emit when the nanosecond count fits, none and InvalidInput when it does not
    //@H name=c03_hist_duration_send props=C02,C03,C20 fn=Histogrammed<Duration> :: histogram(Duration) quiet form
    entry!(c03_hist_duration_try, c03_hist_duration_send, histogram, histogram_with_tags, dur_ns_exact(), true);
    //@H name=c03_hist_vec_u64_try props=C01,C03,C20 fn=Histogrammed<Vec<u64>> :: histogram(Vec<u64>): one emit; the empty list is rejected and nothing is sent
    //@H name=c03_hist_vec_u64_send props=C03,C20 fn=Histogrammed<Vec<u64>> :: histogram(Vec<u64>) quiet form
    entry!(c03_hist_vec_u64_try, c03_hist_vec_u64_send, histogram, histogram_with_tags, vec_or_empty(kani::any::<u64>()), true);
    //@H name=c03_hist_vec_f64_try props=C01,C03,C20 tier=thorough fn=Histogrammed<Vec<f64>> :: histogram(Vec<f64>): one emit; empty rejected
    //@H name=c03_hist_vec_f64_send props=C03,C20 tier=thorough fn=Histogrammed<Vec<f64>> :: histogram(Vec<f64>) quiet form
    entry!(c03_hist_vec_f64_try, c03_hist_vec_f64_send, histogram, histogram_with_tags, vec_or_empty(kani::any::<f64>()), true);
    //@H name=c03_hist_vec_duration_try mem=heavy props=C01,C02,C03,C20 tier=thorough fn=Histogrammed<Vec<Duration>> :: histogram(Vec<Duration>) (length 0..1): overflow or empty => InvalidInput and nothing sent
    //@H name=c03_hist_vec_duration_send mem=heavy props=C02,C03,C20 tier=thorough fn=Histogrammed<Vec<Duration>> :: histogram(Vec<Duration>) quiet form
    entry!(c03_hist_vec_duration_try, c03_hist_vec_duration_send, histogram, histogram_with_tags, { let (d, ok) = dur_ns_exact(); let (v, ne) = vec_or_empty(d); (v, ok && ne) }, true);
    //@H name=c03_dist_u64_try props=C01,C03,C20 tier=thorough fn=Distributed<u64> :: distribution(u64): one emit, truthful result
    //@H name=c03_dist_u64_send props=C03,C20 tier=thorough fn=Distributed<u64> :: distribution(u64) quiet form
    entry!(c03_dist_u64_try, c03_dist_u64_send, distribution, distribution_with_tags, (kani::any::<u64>(), true), true);
    //@H name=c03_dist_f64_try props=C01,C03,C20 fn=Distributed<f64> :: distribution(f64): one emit, truthful result
    //@H name=c03_dist_f64_send props=C03,C20 fn=Distributed<f64> :: distribution(f64) quiet form
    entry!(c03_dist_f64_try, c03_dist_f64_send, distribution, distribution_with_tags, (kani::any::<f64>(), true), true);
    //@H name=c03_dist_vec_u64_try props=C01,C03,C20 tier=thorough fn=Distributed<Vec<u64>> :: distribution(Vec<u64>): one emit; empty rejected
    //@H name=c03_dist_vec_u64_send props=C03,C20 tier=thorough fn=Distributed<Vec<u64>> :: distribution(Vec<u64>) quiet form
    entry!(c03_dist_vec_u64_try, c03_dist_vec_u64_send, distribution, distribution_with_tags, vec_or_empty(kani::any::<u64>()), true);
    //@H name=c03_dist_vec_f64_try props=C01,C03,C20 tier=thorough fn=Distributed<Vec<f64>> :: distribution(Vec<f64>): one emit; empty rejected
    //@H name=c03_dist_vec_f64_send props=C03,C20 tier=thorough fn=Distributed<Vec<f64>> :: distribution(Vec<f64>) quiet form
    entry!(c03_dist_vec_f64_try, c03_dist_vec_f64_send, distribution, distribution_with_tags, vec_or_empty(kani::any::<f64>()), true);
    //@H name=c03_set_i64_try props=C01,C03,C20 fn=Setted<i64> :: set(i64): one emit, truthful result
    //@H name=c03_set_i64_send props=C03,C20 fn=Setted<i64> :: set(i64) quiet form
    entry!(c03_set_i64_try, c03_set_i64_send, set, set_with_tags, (kani::any::<i64>(), true), true);

    //@H name=c03_incr_decr props=C03,C04,C20 fn=CountedExt::incr,decr,incr_with_tags,decr_with_tags :: incr/decr: one emit each, truthful results (plain and quiet)
    #[kani::proof]
    #[kani::unwind(6)]
    #[kani::stub(crate::builder::MetricFormatter::format, format_stub)]
    fn c03_incr_decr() {
        let client = mk_client(String::from("p."), Vec::new(), None);
        let s0 = script(0);
        let r = client.incr("k");
        check_try!(r, true, s0, 0);
        std::mem::forget(r);
        let s1 = script(1);
        let (cb, eb) = (CALLS.load(Ordering::SeqCst), ERRS.load(Ordering::SeqCst));
        client.decr_with_tags("k").send();
        check_send!(true, s1, cb, eb);
        kani::cover!(true, "end");
        std::mem::forget(client);
    }

    //@H name=c03_flush props=C06,C03 fn=StatsdClient::flush :: client.flush is exactly one sink.flush; a sink error is reported as an I/O-kind error
    #[kani::proof]
    #[kani::unwind(6)]
    fn c03_flush() {
        struct F;
        static FLUSHES: AtomicUsize = AtomicUsize::new(0);
        static FAIL: AtomicUsize = AtomicUsize::new(0);
        impl MetricSink for F {
            fn emit(&self, _m: &str) -> io::Result<usize> { unreachable!() }
            fn flush(&self) -> io::Result<()> {
                FLUSHES.fetch_add(1, Ordering::SeqCst);
                if FAIL.load(Ordering::SeqCst) == 1 { Err(io::Error::from(io::ErrorKind::BrokenPipe)) } else { Ok(()) }
            }
        }
        let fail: bool = kani::any();
        FAIL.store(fail as usize, Ordering::SeqCst);
        let client = StatsdClient { prefix: String::new(), sink: Box::new(F), errors: Box::new(|e: MetricError| record_error(e)), tags: Vec::new(), container_id: None };
        let r = client.flush();
        assert!(FLUSHES.load(Ordering::SeqCst) == 1, "[C06] client.flush flushes the sink exactly once");
        match r {
            Ok(()) => assert!(!fail, "[C06] client.flush returns Ok only if the sink's flush returned Ok"),
            Err(ref e) => assert!(fail && e.kind() == ErrorKind::IoError, "[C06,C03] a failing sink flush is reported as an I/O-kind error"),
        }
        kani::cover!(r.is_ok(), "ok");
        kani::cover!(r.is_err(), "err");
        std::mem::forget(r);
        std::mem::forget(client);
    }
}
