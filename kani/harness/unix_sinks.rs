//@APPEND cadence/src/sinks/unix.rs
// C13 / C14: the Unix-datagram sinks hand exactly the metric bytes to send_to, once, to the configured path
#[cfg(kani)]
mod verif_unix {
    use super::*;
    use crate::sinks::core::verif_stats::{shares_counters, snapshot};
    use std::mem::ManuallyDrop;
    use std::os::fd::FromRawFd;
    use std::os::unix::ffi::OsStrExt;
    use std::sync::atomic::{AtomicUsize, Ordering};

    static CALLS: AtomicUsize = AtomicUsize::new(0);
    static PTR: AtomicUsize = AtomicUsize::new(0);
    static LEN: AtomicUsize = AtomicUsize::new(0);
    static PATH_OK: AtomicUsize = AtomicUsize::new(0);
    static OUTCOME: AtomicUsize = AtomicUsize::new(0); // 0 => Err(kind), n+1 => Ok(n), usize::MAX => Ok(the whole datagram)
    static KIND: AtomicUsize = AtomicUsize::new(0);
    const GIVEN: &str = "/r/s.sock";

    fn kind_of(i: usize) -> io::ErrorKind {
        match i { 0 => io::ErrorKind::WouldBlock, 1 => io::ErrorKind::ConnectionRefused, 2 => io::ErrorKind::NotFound, _ => io::ErrorKind::Other }
    }

    /// contract of the kernel call, as far as the sinks may rely on it: records what it was given
    fn send_to_stub<P: AsRef<Path>>(_s: &UnixDatagram, buf: &[u8], path: P) -> io::Result<usize> {
        CALLS.fetch_add(1, Ordering::SeqCst);
        PTR.store(buf.as_ptr() as usize, Ordering::SeqCst);
        LEN.store(buf.len(), Ordering::SeqCst);
        if path.as_ref().as_os_str().as_bytes() == GIVEN.as_bytes() {
            PATH_OK.store(1, Ordering::SeqCst);
        }
        match OUTCOME.load(Ordering::SeqCst) {
            0 => Err(io::Error::from(kind_of(KIND.load(Ordering::SeqCst)))),
            usize::MAX => Ok(buf.len()),
            n => Ok(n - 1),
        }
    }

    /// file-system queries are outside every contract: a path lookup may answer anything
    fn canonicalize_stub(_p: &Path) -> io::Result<PathBuf> {
        if kani::any() { Ok(PathBuf::from("/elsewhere")) } else { Err(io::Error::from(io::ErrorKind::NotFound)) }
    }

    fn any_outcome() -> (bool, usize, io::ErrorKind) {
        let ok: bool = kani::any();
        let n: usize = kani::any();
        kani::assume(n < usize::MAX / 4);
        let k: usize = kani::any();
        kani::assume(k < 4);
        OUTCOME.store(if ok { n + 1 } else { 0 }, Ordering::SeqCst);
        KIND.store(k, Ordering::SeqCst);
        (ok, n, kind_of(k))
    }

    static BUF: [u8; 131072] = [b'a'; 131072];
    fn any_str() -> &'static str {
        let len: usize = kani::any();
        kani::assume(len <= 131072);
        // any length up to 128 KiB (beyond the largest UDP/Unix datagram): the bytes are never read by
        // the code under test, only the pointer and the length travel to the stub
        unsafe { std::str::from_utf8_unchecked(&BUF[..len]) }
    }

    fn fake_socket() -> UnixDatagram {
        unsafe { UnixDatagram::from_raw_fd(7) }
    }

    //@H name=c13_unix_emit props=C13,C14,C20 bound="metric length 0..=131072 bytes (the code passes pointer+length only)" fn=UnixMetricSink::emit :: unbuffered Unix emit = exactly one send_to of exactly the metric's bytes to the path given at construction; result and statistics follow the socket's answer
    #[kani::proof]
    #[kani::unwind(40)]
    #[kani::stub(std::os::unix::net::UnixDatagram::send_to, send_to_stub)]
    #[kani::stub(std::path::Path::canonicalize, canonicalize_stub)]
    fn c13_unix_emit() {
        let sink = ManuallyDrop::new(UnixMetricSink::from(GIVEN, fake_socket()));
        let (ok, n, kind) = any_outcome();
        let m = any_str();
        let r = sink.emit(m);
        assert!(CALLS.load(Ordering::SeqCst) == 1, "[C13,C14] exactly one datagram send attempt per emit");
        assert!(PTR.load(Ordering::SeqCst) == m.as_ptr() as usize && LEN.load(Ordering::SeqCst) == m.len(), "[C13] the payload is exactly the metric's UTF-8 bytes, nothing added or removed");
        assert!(PATH_OK.load(Ordering::SeqCst) == 1, "[C13] the datagram goes to the path given at construction");
        let st = snapshot(&sink.stats);
        match r {
            Ok(w) => {
                assert!(ok && w == n, "[C13] emit returns the number of bytes the socket reported");
                assert!(st == [w as u64, 1, 0, 0], "[C14] an accepted emit counts one packet and its bytes as sent");
            }
            Err(ref e) => {
                assert!(!ok && e.kind() == kind, "[C13] emit returns the socket's own error");
                assert!(st == [0, 0, m.len() as u64, 1], "[C14] a refused emit counts one packet and the metric's length as dropped");
            }
        }
        kani::cover!(r.is_ok(), "accepted");
        kani::cover!(r.is_err(), "refused");
        std::mem::forget(r);
    }

    //@H name=c13_unix_adapter_write props=C05,C06,C07,C13,C14,C20 bound="buffer length 0..=131072 bytes (the code passes pointer+length only)" fn=UnixWriteAdapter::write :: the buffered sink's adapter is a datagram writer: one send_to per write, same bytes, configured path, all-or-nothing result through the statistics
    #[kani::proof]
    #[kani::unwind(40)]
    #[kani::stub(std::os::unix::net::UnixDatagram::send_to, send_to_stub)]
    #[kani::stub(std::path::Path::canonicalize, canonicalize_stub)]
    fn c13_unix_adapter_write() {
        let mut ad = ManuallyDrop::new(UnixWriteAdapter::new(fake_socket(), GIVEN, SocketStats::default()));
        let (ok, n, kind) = any_outcome();
        let m = any_str();
        let r = ad.write(m.as_bytes());
        assert!(CALLS.load(Ordering::SeqCst) == 1, "[C05,C13,C14] one datagram per adapter write");
        assert!(PTR.load(Ordering::SeqCst) == m.as_ptr() as usize && LEN.load(Ordering::SeqCst) == m.len(), "[C05,C13] the datagram is exactly the buffer handed over (never split, nothing added)");
        assert!(PATH_OK.load(Ordering::SeqCst) == 1, "[C13] the datagram goes to the path given at construction");
        let st = snapshot(&ad.stats);
        match r {
            Ok(w) => { assert!(ok && w == n, "[C05,C06,C07,C13] a write is reported as accepted only when the socket accepted the datagram; the socket's byte count is returned"); assert!(st == [w as u64, 1, 0, 0], "[C14] accepted datagram counted as sent"); }
            Err(ref e) => { assert!(!ok && e.kind() == kind, "[C06,C07,C13] a datagram the socket refused is reported as an error with the socket's own kind (the line writer and flush rely on it to surface the loss)"); assert!(st == [0, 0, m.len() as u64, 1], "[C14] refused datagram counted as dropped with its full size"); }
        }
        let before = CALLS.load(Ordering::SeqCst);
        assert!(ad.flush().is_ok() && CALLS.load(Ordering::SeqCst) == before, "[C13] the adapter's flush sends nothing");
        kani::cover!(r.is_ok(), "accepted");
        kani::cover!(r.is_err(), "refused");
        std::mem::forget(r);
    }

    //@H name=c13_unix_buffered_ctor props=C05,C13,C14,C19 bound="capacity 0..=64 or 1000000" fn=BufferedUnixMetricSink::with_capacity :: the buffered constructor builds the line writer with the given capacity, a single newline terminator, the given path, and shares its statistics with the adapter
    #[kani::proof]
    #[kani::unwind(40)]
    #[kani::stub(std::path::Path::canonicalize, canonicalize_stub)]
    fn c13_unix_buffered_ctor() {
        // BufWriter::with_capacity allocates cap bytes: small symbolic sizes, or one size beyond any datagram limit
        let small: usize = kani::any();
        kani::assume(small <= 64);
        let cap: usize = if kani::any() { small } else { 1_000_000 };
        let s = ManuallyDrop::new(BufferedUnixMetricSink::with_capacity(GIVEN, fake_socket(), cap));
        {
            let w = s.buffer.lock().unwrap();
            assert!(w.verif_capacity() == cap, "[C05,C13,C19] the configured capacity is the one used, whatever its size (the sink neither clamps nor replaces it)");
            assert!(w.verif_ending().len() == 1 && w.verif_ending()[0] == b'\n', "[C13] the terminator is a single newline");
            assert!(w.verif_written() == 0 && w.verif_buffered().is_empty(), "[C06] nothing is buffered initially");
            assert!(w.verif_inner().path.as_os_str().as_bytes() == GIVEN.as_bytes(), "[C13] datagrams go to the path given at construction");
            assert!(shares_counters(&w.verif_inner().stats, &s.stats), "[C14] the sink reports the adapter's counters (shared)");
            std::mem::forget(w);
        }
        kani::cover!(true, "end");
    }

    //@H name=c13_unix_buffered_default props=C05,C13 fn=BufferedUnixMetricSink::from :: without an explicit capacity the buffer is 512 bytes
    #[kani::proof]
    #[kani::unwind(40)]
    #[kani::stub(std::path::Path::canonicalize, canonicalize_stub)]
    fn c13_unix_buffered_default() {
        let s = ManuallyDrop::new(BufferedUnixMetricSink::from(GIVEN, fake_socket()));
        {
            let w = s.buffer.lock().unwrap();
            assert!(w.verif_capacity() == 512, "[C05,C13] default capacity is 512 bytes");
            assert!(w.verif_ending().len() == 1 && w.verif_ending()[0] == b'\n', "[C13] the terminator is a single newline");
            std::mem::forget(w);
        }
        kani::cover!(true, "end");
    }

    fn try_lock_contended<T>(_m: &std::sync::Mutex<T>) -> std::sync::TryLockResult<std::sync::MutexGuard<'_, T>> {
        Err(std::sync::TryLockError::WouldBlock)
    }

    //@H name=c12_unix_emit_flush props=C06,C12,C13,C14,C20 bound="capacity 8, one 3-byte metric" fn=BufferedUnixMetricSink::emit,flush :: buffered Unix sink: emit == one write of the whole metric into the line writer (nothing sent); flush == ONE datagram metric+newline to the configured destination; flushing again sends nothing
    #[kani::proof]
    #[kani::unwind(40)]
    #[kani::stub(std::os::unix::net::UnixDatagram::send_to, send_to_stub)]
    #[kani::stub(std::path::Path::canonicalize, canonicalize_stub)]
    fn c12_unix_emit_flush() {
        let s = ManuallyDrop::new(BufferedUnixMetricSink::with_capacity(GIVEN, fake_socket(), 8));
        OUTCOME.store(usize::MAX, Ordering::SeqCst); // the socket accepts whatever datagram it is given
        let r = s.emit(" b ");   // blanks at both ends: the sink does not trim or normalise the metric
        assert!(matches!(r, Ok(3)), "[C06,C12,C13] emit returns the metric's byte length");
        assert!(CALLS.load(Ordering::SeqCst) == 0, "[C19] a metric that fits is buffered, nothing is sent");
        assert!(s.flush().is_ok(), "[C06] flush succeeds when the socket accepts");
        assert!(CALLS.load(Ordering::SeqCst) == 1 && LEN.load(Ordering::SeqCst) == 4, "[C06,C12,C13] flush sends what remains as ONE datagram: the whole metric (blanks included) followed by a single newline");
        assert!(PATH_OK.load(Ordering::SeqCst) == 1, "[C13] to the destination given at construction");
        assert!(snapshot(&s.stats) == [4, 1, 0, 0], "[C14] the buffered sink's statistics count the datagram the socket accepted");
        assert!(s.flush().is_ok() && CALLS.load(Ordering::SeqCst) == 1, "[C06] flushing again sends nothing");
        kani::cover!(true, "end");
        std::mem::forget(r);
    }

    //@H name=c12_unix_flush_contended props=C06,C12,C20 bound="capacity 8, 1 buffered metric" fn=BufferedUnixMetricSink::flush :: whatever other threads do with the lock, flush never reports success while the metrics acknowledged before it are still buffered (a non-blocking lock attempt is modelled as contended)
    #[kani::proof]
    #[kani::unwind(40)]
    #[kani::stub(std::os::unix::net::UnixDatagram::send_to, send_to_stub)]
    #[kani::stub(std::path::Path::canonicalize, canonicalize_stub)]
    #[kani::stub(std::sync::Mutex::try_lock, try_lock_contended)]
    fn c12_unix_flush_contended() {
        let s = ManuallyDrop::new(BufferedUnixMetricSink::with_capacity(GIVEN, fake_socket(), 8));
        OUTCOME.store(usize::MAX, Ordering::SeqCst);
        let r = s.emit("ab");
        if r.is_ok() {
            let f = s.flush();
            assert!(f.is_err() || CALLS.load(Ordering::SeqCst) == 1, "[C06,C12] flush returned Ok => every metric acknowledged before it has been handed to the socket, even under lock contention");
            std::mem::forget(f);
        }
        kani::cover!(r.is_ok(), "emit accepted");
        std::mem::forget(r);
    }
}
