//@APPEND cadence/src/client.rs
// Contracts (as Hoare triples) on the 22 real `To*Value::try_to_value` impls: C02 (+C20, C01 "at least one value").
#[cfg(kani)]
mod verif_conv {
    use super::*;
    use std::mem::ManuallyDrop;

    fn inv(e: &MetricError) -> bool {
        e.kind() == ErrorKind::InvalidInput
    }

    /// a Vec handle with arbitrary (len, cap); the buffer is never dereferenced by the code under
    /// contract (the packed impls only move the Vec), so a dangling pointer is sufficient
    fn any_vec_handle<T>() -> (ManuallyDrop<Vec<T>>, *const T, usize, usize) {
        if kani::any() {
            // the empty list: a real allocation (the code under contract drops it), capacity 0..=4
            let c: usize = kani::any();
            kani::assume(c <= 4);
            let v: Vec<T> = Vec::with_capacity(c);
            let (p, cap) = (v.as_ptr(), v.capacity());
            return (ManuallyDrop::new(v), p, 0, cap);
        }
        let len: usize = kani::any();
        let cap: usize = kani::any();
        kani::assume(1 <= len && len <= cap && cap <= (isize::MAX as usize) / std::mem::size_of::<T>());
        let p = std::ptr::NonNull::<T>::dangling().as_ptr();
        let v = unsafe { Vec::from_raw_parts(p, len, cap) };
        (ManuallyDrop::new(v), p as *const T, len, cap)
    }

    macro_rules! scalar {
        ($name:ident, $tr:ident, $t:ty, $variant:ident, $wide:ty) => {
            #[kani::proof]
            fn $name() {
                let v: $t = kani::any();
                match <$t as $tr>::try_to_value(v) {
                    Ok(MetricValue::$variant(x)) => assert!(x == v as $wide, "[C01,C02] integer reaches the formatter with exactly the supplied value"),
                    _ => assert!(false, "[C01,C02] a scalar integer is never rejected and keeps its signedness class"),
                }
                kani::cover!(true, "end");
            }
        };
    }
    macro_rules! float {
        ($name:ident, $tr:ident) => {
            #[kani::proof]
            fn $name() {
                let v: f64 = kani::any();
                match <f64 as $tr>::try_to_value(v) {
                    Ok(MetricValue::Float(x)) => assert!(x.to_bits() == v.to_bits(), "[C01,C02] float reaches the formatter bit-identical"),
                    _ => assert!(false, "[C02] a float is never rejected"),
                }
                kani::cover!(true, "end");
            }
        };
    }
    macro_rules! packed {
        ($name:ident, $tr:ident, $t:ty, $variant:ident) => {
            #[kani::proof]
            fn $name() {
                let (v, p, len, cap) = any_vec_handle::<$t>();
                let r = <Vec<$t> as $tr>::try_to_value(ManuallyDrop::into_inner(v));
                match r {
                    Ok(MetricValue::$variant(ref x)) => {
                        assert!(len > 0, "[C01,C02,C03] an accepted packed list has at least one value (an empty list is an invalid value: rejected, never handed to the sink)");
                        assert!(x.as_ptr() == p && x.len() == len && x.capacity() == cap, "[C02] packed list keeps its buffer: same length, same order, same elements");
                    }
                    Ok(_) => assert!(false, "[C02] packed list keeps its element type"),
                    Err(ref e) => {
                        assert!(len == 0, "[C02,C20] only the empty packed list is rejected");
                        assert!(inv(e), "[C02,C03] rejection is an invalid-input error");
                    }
                }
                kani::cover!(r.is_ok(), "accepted");
                kani::cover!(r.is_err(), "rejected");
                std::mem::forget(r);
            }
        };
    }

    //@H name=c02_counter_i64 props=C01,C02,C20 fn=ToCounterValue<i64> :: i64 counter value is passed on exactly (whole range)
    scalar!(c02_counter_i64, ToCounterValue, i64, Signed, i64);
    //@H name=c02_counter_i32 props=C01,C02,C20 fn=ToCounterValue<i32> :: i32 counter value is sign-extended exactly (whole range)
    scalar!(c02_counter_i32, ToCounterValue, i32, Signed, i64);
    //@H name=c02_counter_u64 props=C01,C02,C20 fn=ToCounterValue<u64> :: u64 counter value is passed on exactly (whole range)
    scalar!(c02_counter_u64, ToCounterValue, u64, Unsigned, u64);
    //@H name=c02_counter_u32 props=C01,C02,C20 fn=ToCounterValue<u32> :: u32 counter value is zero-extended exactly (whole range)
    scalar!(c02_counter_u32, ToCounterValue, u32, Unsigned, u64);
    //@H name=c02_timer_u64 props=C01,C02,C20 fn=ToTimerValue<u64> :: u64 timer value is passed on exactly
    scalar!(c02_timer_u64, ToTimerValue, u64, Unsigned, u64);
    //@H name=c02_gauge_u64 props=C01,C02,C20 fn=ToGaugeValue<u64> :: u64 gauge value is passed on exactly
    scalar!(c02_gauge_u64, ToGaugeValue, u64, Unsigned, u64);
    //@H name=c02_meter_u64 props=C01,C02,C20 fn=ToMeterValue<u64> :: u64 meter value is passed on exactly
    scalar!(c02_meter_u64, ToMeterValue, u64, Unsigned, u64);
    //@H name=c02_hist_u64 props=C01,C02,C20 fn=ToHistogramValue<u64> :: u64 histogram value is passed on exactly
    scalar!(c02_hist_u64, ToHistogramValue, u64, Unsigned, u64);
    //@H name=c02_dist_u64 props=C01,C02,C20 fn=ToDistributionValue<u64> :: u64 distribution value is passed on exactly
    scalar!(c02_dist_u64, ToDistributionValue, u64, Unsigned, u64);
    //@H name=c02_set_i64 props=C01,C02,C20 fn=ToSetValue<i64> :: i64 set value is passed on exactly
    scalar!(c02_set_i64, ToSetValue, i64, Signed, i64);
    //@H name=c02_gauge_f64 props=C01,C02,C20 fn=ToGaugeValue<f64> :: f64 gauge value is passed on bit-identically (all bit patterns incl. NaN, -0.0, subnormals)
    float!(c02_gauge_f64, ToGaugeValue);
    //@H name=c02_hist_f64 props=C01,C02,C20 fn=ToHistogramValue<f64> :: f64 histogram value is passed on bit-identically
    float!(c02_hist_f64, ToHistogramValue);
    //@H name=c02_dist_f64 props=C01,C02,C20 fn=ToDistributionValue<f64> :: f64 distribution value is passed on bit-identically
    float!(c02_dist_f64, ToDistributionValue);
    //@H name=c02_timer_vec_u64 props=C01,C02,C03,C20 fn=ToTimerValue<Vec<u64>> :: packed u64 timers: same buffer (any length/capacity), empty rejected
    packed!(c02_timer_vec_u64, ToTimerValue, u64, PackedUnsigned);
    //@H name=c02_hist_vec_u64 props=C01,C02,C03,C20 fn=ToHistogramValue<Vec<u64>> :: packed u64 histograms: same buffer, empty rejected
    packed!(c02_hist_vec_u64, ToHistogramValue, u64, PackedUnsigned);
    //@H name=c02_hist_vec_f64 props=C01,C02,C03,C20 fn=ToHistogramValue<Vec<f64>> :: packed f64 histograms: same buffer, empty rejected
    packed!(c02_hist_vec_f64, ToHistogramValue, f64, PackedFloat);
    //@H name=c02_dist_vec_u64 props=C01,C02,C03,C20 fn=ToDistributionValue<Vec<u64>> :: packed u64 distributions: same buffer, empty rejected
    packed!(c02_dist_vec_u64, ToDistributionValue, u64, PackedUnsigned);
    //@H name=c02_dist_vec_f64 props=C01,C02,C03,C20 fn=ToDistributionValue<Vec<f64>> :: packed f64 distributions: same buffer, empty rejected
    packed!(c02_dist_vec_f64, ToDistributionValue, f64, PackedFloat);

    fn any_duration() -> (Duration, u64, u32) {
        let secs: u64 = kani::any();
        let nanos: u32 = kani::any();
        kani::assume(nanos < 1_000_000_000);
        (Duration::new(secs, nanos), secs, nanos)
    }

    //@H name=c02_timer_duration props=C01,C02,C20 fn=ToTimerValue<Duration> family=conv inputs=secs:u64,nanos:u32 :: Duration -> whole milliseconds (rounded down); Err(InvalidInput) exactly when the count exceeds u64 (all secs, all nanos)
    #[kani::proof]
    #[kani::solver(kissat)]
    fn c02_timer_duration() {
        let (d, secs, nanos) = any_duration();
        let exact: u128 = (secs as u128) * 1000 + (nanos as u128) / 1_000_000;
        match <Duration as ToTimerValue>::try_to_value(d) {
            Ok(MetricValue::Unsigned(v)) => {
                assert!(exact <= u64::MAX as u128, "[C02] a Duration whose millisecond count does not fit in 64 bits is rejected");
                assert!(v as u128 == exact, "[C02] timer Duration is sent as whole milliseconds, rounded down");
            }
            Ok(_) => assert!(false, "[C02] timer Duration becomes an unsigned count"),
            Err(e) => {
                assert!(exact > u64::MAX as u128, "[C02] a Duration whose millisecond count fits in 64 bits is accepted");
                assert!(inv(&e), "[C02,C03] overflow is reported as invalid input");
            }
        }
        kani::cover!(true, "end");
    }

    //@H name=c02_hist_duration props=C01,C02,C20 fn=ToHistogramValue<Duration> family=conv inputs=secs:u64,nanos:u32 :: Duration -> whole nanoseconds; Err(InvalidInput) exactly when the count exceeds u64 (all secs, all nanos)
    #[kani::proof]
    #[kani::solver(kissat)]
    fn c02_hist_duration() {
        let (d, secs, nanos) = any_duration();
        let exact: u128 = (secs as u128) * 1_000_000_000 + (nanos as u128);
        match <Duration as ToHistogramValue>::try_to_value(d) {
            Ok(MetricValue::Unsigned(v)) => {
                assert!(exact <= u64::MAX as u128, "[C02] a Duration whose nanosecond count does not fit in 64 bits is rejected");
                assert!(v as u128 == exact, "[C02] histogram Duration is sent as whole nanoseconds");
            }
            Ok(_) => assert!(false, "[C02] histogram Duration becomes an unsigned count"),
            Err(e) => {
                assert!(exact > u64::MAX as u128, "[C02] a Duration whose nanosecond count fits in 64 bits is accepted");
                assert!(inv(&e), "[C02,C03] overflow is reported as invalid input");
            }
        }
        kani::cover!(true, "end");
    }

    fn exact_ms(secs: u64, nanos: u32) -> u128 { (secs as u128) * 1000 + (nanos as u128) / 1_000_000 }
    fn exact_ns(secs: u64, nanos: u32) -> u128 { (secs as u128) * 1_000_000_000 + (nanos as u128) }

    macro_rules! vec_duration {
        ($name:ident, $tr:ident, $exact:ident, $n:expr) => {
            #[kani::proof]
            #[kani::unwind(6)]
            #[kani::solver(kissat)]
            fn $name() {
                let mut v: Vec<Duration> = Vec::with_capacity($n);
                let mut ex: [u128; $n] = [0; $n];
                let mut i = 0;
                while i < $n {
                    let (d, s, n) = any_duration();
                    ex[i] = $exact(s, n);
                    v.push(d);
                    i += 1;
                }
                let mut overflow = false;
                let mut j = 0;
                while j < $n { if ex[j] > u64::MAX as u128 { overflow = true; } j += 1; }
                let r = <Vec<Duration> as $tr>::try_to_value(v);
                match r {
                    Ok(MetricValue::PackedUnsigned(ref out)) => {
                        assert!(!overflow, "[C02,C03] a Duration that does not fit in 64 bits at ANY position of a packed list rejects the whole list (an invalid value is never handed to the sink)");
                        assert!(out.len() == $n, "[C02] packed Duration list keeps its length");
                        let mut k = 0;
                        while k < $n { assert!(out[k] as u128 == ex[k], "[C02] packed Durations are converted element-wise, in order, rounded down"); k += 1; }
                    }
                    Ok(_) => assert!(false, "[C02] packed Durations become packed unsigned counts"),
                    Err(ref e) => {
                        assert!(overflow, "[C02] a packed Duration list without overflowing element is accepted");
                        assert!(inv(e), "[C02,C03] overflow is reported as invalid input");
                    }
                }
                kani::cover!(r.is_ok(), "accepted");
                kani::cover!(r.is_err(), "rejected");
                std::mem::forget(r);
            }
        };
    }
    //@H name=c02_timer_vec_duration_1 props=C01,C02,C03,C20 bound="list length 1 (unwind 6)" fn=ToTimerValue<Vec<Duration>> :: packed Durations -> ms element-wise; overflow at any index rejects the list
    vec_duration!(c02_timer_vec_duration_1, ToTimerValue, exact_ms, 1);
    //@H name=c02_timer_vec_duration_2 props=C01,C02,C20 bound="list length 2 (unwind 6)" fn=ToTimerValue<Vec<Duration>> :: packed Durations -> ms element-wise; overflow at any index rejects the list
    vec_duration!(c02_timer_vec_duration_2, ToTimerValue, exact_ms, 2);
    //@H name=c02_timer_vec_duration_3 props=C01,C02,C20 tier=thorough bound="list length 3 (unwind 6)" fn=ToTimerValue<Vec<Duration>> :: packed Durations -> ms element-wise; overflow at any index rejects the list
    vec_duration!(c02_timer_vec_duration_3, ToTimerValue, exact_ms, 3);
    //@H name=c02_hist_vec_duration_1 props=C01,C02,C03,C20 bound="list length 1 (unwind 6)" fn=ToHistogramValue<Vec<Duration>> :: packed Durations -> ns element-wise; overflow at any index rejects the list
    vec_duration!(c02_hist_vec_duration_1, ToHistogramValue, exact_ns, 1);
    //@H name=c02_hist_vec_duration_2 props=C01,C02,C20 tier=thorough bound="list length 2 (unwind 6)" fn=ToHistogramValue<Vec<Duration>> :: packed Durations -> ns element-wise; overflow at any index rejects the list
    vec_duration!(c02_hist_vec_duration_2, ToHistogramValue, exact_ns, 2);
    //@H name=c02_hist_vec_duration_3 props=C01,C02,C20 tier=thorough bound="list length 3 (unwind 6)" fn=ToHistogramValue<Vec<Duration>> :: packed Durations -> ns element-wise; overflow at any index rejects the list
    vec_duration!(c02_hist_vec_duration_3, ToHistogramValue, exact_ns, 3);

    //@H name=c02_vec_duration_empty props=C01,C02,C03,C20 fn=To{Timer,Histogram}Value<Vec<Duration>> :: an empty packed Duration list is rejected as invalid input (both kinds)
    #[kani::proof]
    #[kani::unwind(3)]
    fn c02_vec_duration_empty() {
        let r1 = <Vec<Duration> as ToTimerValue>::try_to_value(Vec::new());
        let r2 = <Vec<Duration> as ToHistogramValue>::try_to_value(Vec::new());
        assert!(matches!(r1, Err(ref e) if inv(e)), "[C01,C02,C03] empty packed Duration timer list is rejected (never handed to the sink)");
        assert!(matches!(r2, Err(ref e) if inv(e)), "[C01,C02,C03] empty packed Duration histogram list is rejected (never handed to the sink)");
        kani::cover!(true, "end");
        std::mem::forget(r1); std::mem::forget(r2);
    }
}
