//@APPEND cadence/src/sinks/core.rs
// C14: contract of SocketStats::update and of the SinkStats snapshot (complete: loop-free, full domain)
#[cfg(kani)]
pub(crate) mod verif_stats {
    use super::*;

    pub(crate) fn any_kind() -> io::ErrorKind {
        let k: u8 = kani::any();
        match k % 8 {
            0 => io::ErrorKind::WouldBlock,
            1 => io::ErrorKind::ConnectionRefused,
            2 => io::ErrorKind::NotFound,
            3 => io::ErrorKind::PermissionDenied,
            4 => io::ErrorKind::Interrupted,
            5 => io::ErrorKind::BrokenPipe,
            6 => io::ErrorKind::InvalidInput,
            _ => io::ErrorKind::Other,
        }
    }

    pub(crate) fn snapshot(st: &SocketStats) -> [u64; 4] {
        let s: SinkStats = st.into();
        [s.bytes_sent, s.packets_sent, s.bytes_dropped, s.packets_dropped]
    }

    /// do two SocketStats values share all four counters?
    pub(crate) fn shares_counters(a: &SocketStats, b: &SocketStats) -> bool {
        Arc::ptr_eq(&a.bytes_sent, &b.bytes_sent) && Arc::ptr_eq(&a.packets_sent, &b.packets_sent)
            && Arc::ptr_eq(&a.bytes_dropped, &b.bytes_dropped) && Arc::ptr_eq(&a.packets_dropped, &b.packets_dropped)
    }

    fn any_stats() -> (SocketStats, [u64; 4]) {
        let st = SocketStats::default();
        let b: [u64; 4] = [kani::any(), kani::any(), kani::any(), kani::any()];
        // the counters are 64-bit and wrap silently by definition (fetch_add); the contract is stated
        // for counters that have not wrapped: below 2^63 before the call
        kani::assume(b[0] < u64::MAX / 2 && b[1] < u64::MAX / 2 && b[2] < u64::MAX / 2 && b[3] < u64::MAX / 2);
        st.bytes_sent.store(b[0], Ordering::Relaxed);
        st.packets_sent.store(b[1], Ordering::Relaxed);
        st.bytes_dropped.store(b[2], Ordering::Relaxed);
        st.packets_dropped.store(b[3], Ordering::Relaxed);
        (st, b)
    }

    //@H name=c14_update_ok props=C14,C20 fn=SocketStats::update :: an accepted send of w bytes adds exactly (+w bytes_sent, +1 packets_sent, 0, 0) and returns Ok(w) (all w, all prior counters)
    #[kani::proof]
    fn c14_update_ok() {
        let (st, b) = any_stats();
        let len: usize = kani::any();
        let w: usize = kani::any();
        kani::assume((w as u64) < u64::MAX / 2);
        let r = st.update(Ok(w), len);
        let a = snapshot(&st);
        assert!(matches!(r, Ok(x) if x == w), "[C13,C14] update returns the socket's Ok result unchanged");
        assert!(a[0] == b[0] + w as u64, "[C14] bytes_sent grows by the size the socket accepted");
        assert!(a[1] == b[1] + 1, "[C14] packets_sent grows by exactly one per accepted datagram");
        assert!(a[2] == b[2] && a[3] == b[3], "[C14] an accepted datagram does not touch the dropped counters");
        kani::cover!(true, "end");
        std::mem::forget(r);
    }

    //@H name=c14_update_err props=C14,C20 fn=SocketStats::update :: a refused send of a len-byte datagram adds exactly (0, 0, +len bytes_dropped, +1 packets_dropped) and returns the same error (all len, kinds)
    #[kani::proof]
    fn c14_update_err() {
        let (st, b) = any_stats();
        let len: usize = kani::any();
        kani::assume((len as u64) < u64::MAX / 2);
        let kind = any_kind();
        let r = st.update(Err(io::Error::from(kind)), len);
        let a = snapshot(&st);
        assert!(matches!(r, Err(ref e) if e.kind() == kind), "[C13,C14] update returns the socket's error unchanged");
        assert!(a[2] == b[2] + len as u64, "[C14] bytes_dropped grows by the size of the refused datagram");
        assert!(a[3] == b[3] + 1, "[C14] packets_dropped grows by exactly one per refused datagram");
        assert!(a[0] == b[0] && a[1] == b[1], "[C14] a refused datagram does not touch the sent counters");
        kani::cover!(true, "end");
        std::mem::forget(r);
    }

    // ---- rely/guarantee: other emitters update the same counters concurrently (hook H3). Before
    // every access of a counter the shim lets "the others" add an arbitrary amount and records it
    // in a ghost total. An increment implemented as ONE atomic read-modify-write satisfies the
    // triple below for every interference; read-then-write loses what was added in between.
    use crate::verif_shim::atomic::interfered::INTERFERE;

    fn others(st: &SocketStats) -> [u64; 4] {
        [st.bytes_sent.ghost_others(), st.packets_sent.ghost_others(), st.bytes_dropped.ghost_others(), st.packets_dropped.ghost_others()]
    }
    fn quiescent(st: &SocketStats) -> [u64; 4] {
        INTERFERE.store(false, Ordering::SeqCst);   // the moment at which no send is in progress
        snapshot(st)
    }

    //@H name=c14_update_ok_concurrent props=C14,C20 fn=SocketStats::update,incr_bytes_sent,incr_packets_sent :: under ARBITRARY concurrent additions by other emitters to the same counters, an accepted send still adds exactly (+w, +1) and nothing the others added is lost
    #[kani::proof]
    fn c14_update_ok_concurrent() {
        let (st, b) = any_stats();
        let w: usize = kani::any();
        INTERFERE.store(true, Ordering::SeqCst);
        let r = st.update(Ok(w), kani::any());
        let a = quiescent(&st);
        let o = others(&st);
        assert!(a[0] == b[0].wrapping_add(o[0]).wrapping_add(w as u64), "[C14] bytes_sent is exact under concurrent emitters: this send's bytes and every concurrent addition are all counted (one atomic read-modify-write per update)");
        assert!(a[1] == b[1].wrapping_add(o[1]).wrapping_add(1), "[C14] packets_sent is exact under concurrent emitters");
        assert!(a[2] == b[2].wrapping_add(o[2]) && a[3] == b[3].wrapping_add(o[3]), "[C14] an accepted send never disturbs the dropped counters, also under concurrent updates");
        kani::cover!(o[0] != 0 && o[1] != 0, "interference happened");
        std::mem::forget(r);
    }

    //@H name=c14_update_err_concurrent props=C14,C20 fn=SocketStats::update,incr_bytes_dropped,incr_packets_dropped :: under ARBITRARY concurrent additions by other emitters, a refused send still adds exactly (+len, +1) to the dropped counters and nothing the others added is lost
    #[kani::proof]
    fn c14_update_err_concurrent() {
        let (st, b) = any_stats();
        let len: usize = kani::any();
        INTERFERE.store(true, Ordering::SeqCst);
        let r = st.update(Err(io::Error::from(io::ErrorKind::WouldBlock)), len);
        let a = quiescent(&st);
        let o = others(&st);
        assert!(a[2] == b[2].wrapping_add(o[2]).wrapping_add(len as u64), "[C14] bytes_dropped is exact under concurrent emitters");
        assert!(a[3] == b[3].wrapping_add(o[3]).wrapping_add(1), "[C14] packets_dropped is exact under concurrent emitters");
        assert!(a[0] == b[0].wrapping_add(o[0]) && a[1] == b[1].wrapping_add(o[1]), "[C14] a refused send never disturbs the sent counters, also under concurrent updates");
        kani::cover!(o[2] != 0 && o[3] != 0, "interference happened");
        std::mem::forget(r);
    }

    //@H name=c14_clone_shares props=C14 fn=SocketStats::clone :: a cloned SocketStats (the one handed to the write adapter) shares the four counters with the original
    #[kani::proof]
    fn c14_clone_shares() {
        let (st, b) = any_stats();
        let c = st.clone();
        assert!(Arc::ptr_eq(&st.bytes_sent, &c.bytes_sent) && Arc::ptr_eq(&st.packets_sent, &c.packets_sent)
            && Arc::ptr_eq(&st.bytes_dropped, &c.bytes_dropped) && Arc::ptr_eq(&st.packets_dropped, &c.packets_dropped),
            "[C14] the adapter's statistics are the sink's statistics (shared counters)");
        let r = c.update(Ok(3), 3);
        let a = snapshot(&st);
        assert!(a[0] == b[0] + 3 && a[1] == b[1] + 1, "[C14] a send recorded through the adapter is visible through the sink");
        kani::cover!(true, "end");
        std::mem::forget(r);
    }

    //@H name=c14_default_zero props=C14 fn=SocketStats::default :: a fresh sink starts with all four counters at zero; a sink without socket reports zeros
    #[kani::proof]
    fn c14_default_zero() {
        let st = SocketStats::default();
        let a = snapshot(&st);
        assert!(a == [0, 0, 0, 0], "[C14] counters start at zero");
        let d = SinkStats::default();
        assert!(d.bytes_sent == 0 && d.packets_sent == 0 && d.bytes_dropped == 0 && d.packets_dropped == 0, "[C14] default SinkStats is all zero");
        kani::cover!(true, "end");
    }
}
