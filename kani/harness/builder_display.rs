//@APPEND cadence/src/builder.rs
// C02 (bounded stand-in, enumerated values): `Display for MetricValue` renders a number exactly as std's
// own Display renders it. The unbounded statement is the Verus contract of `MetricValue::fmt`
// (contracts/builder.rs); this group exists because Verus cannot take float methods or casts, so a
// change that special-cases some floats would otherwise be "unsupported" rather than refuted.
#[cfg(kani)]
mod verif_display {
    use super::*;

    fn same_text(a: &str, b: &str) -> bool {
        if a.len() != b.len() { return false; }
        let (x, y) = (a.as_bytes(), b.as_bytes());
        let mut i = 0;
        while i < x.len() { if x[i] != y[i] { return false; } i += 1; }
        true
    }

    macro_rules! float_case {
        ($name:ident, $v:expr) => {
            #[kani::proof]
            #[kani::unwind(40)]
            fn $name() {
                let v: f64 = $v;
                let got = MetricValue::Float(v).to_string();
                let want = v.to_string();
                assert!(same_text(&got, &want), "[C02] a float value is rendered exactly as std renders that f64 (the shortest numeral that parses back bit-identically)");
                kani::cover!(true, "end");
                std::mem::forget(got); std::mem::forget(want);
            }
        };
    }
    //@H name=c02_display_neg_zero props=C02 bound="enumerated value -0.0" fn=Display for MetricValue :: -0.0 keeps its sign
    float_case!(c02_display_neg_zero, -0.0f64);
    // (1e19, 4.0 and 0.1 were tried: std's float-to-decimal algorithm exhausts CBMC even on concrete inputs -- timeout / out of memory)

    //@H name=c02_display_ints props=C02 bound="enumerated values i64::MIN, u64::MAX" fn=Display for MetricValue :: extreme integers render as std renders them
    #[kani::proof]
    #[kani::unwind(40)]
    fn c02_display_ints() {
        let a = MetricValue::Signed(i64::MIN).to_string();
        let b = MetricValue::Unsigned(u64::MAX).to_string();
        assert!(same_text(&a, "-9223372036854775808"), "[C02] i64::MIN is rendered as its canonical decimal numeral");
        assert!(same_text(&b, "18446744073709551615"), "[C02] u64::MAX is rendered as its canonical decimal numeral");
        kani::cover!(true, "end");
        std::mem::forget(a); std::mem::forget(b);
    }
}
