//@APPEND cadence/src/client.rs
// C01 (prefix normalisation) and C04 (builder keeps configuration order): StatsdClientBuilder
#[cfg(kani)]
mod verif_builder {
    use super::*;
    use super::verif_client::Scripted;

    fn eq(a: &str, b: &str) -> bool {
        if a.len() != b.len() { return false; }
        let (x, y) = (a.as_bytes(), b.as_bytes());
        let mut i = 0;
        while i < x.len() { if x[i] != y[i] { return false; } i += 1; }
        true
    }

    macro_rules! prefix_case {
        ($name:ident, $input:expr, $expect:expr) => {
            #[kani::proof]
            #[kani::unwind(12)]
            fn $name() {
                let r = StatsdClientBuilder::formatted_prefix($input);
                assert!(eq(&r, $expect), "[C01] name prefix: empty stays empty, otherwise trailing dots are removed and exactly one dot is appended");
                kani::cover!(true, "end");
            }
        };
    }
    //@H name=c01_prefix_empty props=C01,C20 bound="enumerated prefix \"\"" fn=StatsdClientBuilder::formatted_prefix :: empty prefix => the name is the key alone
    prefix_case!(c01_prefix_empty, "", "");
    //@H name=c01_prefix_plain props=C01,C20 bound="enumerated prefix \"ab\"" fn=StatsdClientBuilder::formatted_prefix :: "ab" => "ab."
    prefix_case!(c01_prefix_plain, "ab", "ab.");
    //@H name=c01_prefix_dot props=C01,C20 bound="enumerated prefix \"ab.\"" fn=StatsdClientBuilder::formatted_prefix :: "ab." => "ab."
    prefix_case!(c01_prefix_dot, "ab.", "ab.");
    //@H name=c01_prefix_dots props=C01,C20 bound="enumerated prefix \"a..\"" fn=StatsdClientBuilder::formatted_prefix :: "a.." => "a."
    prefix_case!(c01_prefix_dots, "a..", "a.");
    //@H name=c01_prefix_inner props=C01,C20 bound="enumerated prefix \"a.b..\"" fn=StatsdClientBuilder::formatted_prefix :: "a.b.." => "a.b." (inner dots kept)
    prefix_case!(c01_prefix_inner, "a.b..", "a.b.");
    //@H name=c01_prefix_onlydots props=C01,C20 tier=thorough bound="enumerated prefix \"..\"" fn=StatsdClientBuilder::formatted_prefix :: ".." => "." (all dots removed, one appended)
    prefix_case!(c01_prefix_onlydots, "..", ".");

    //@H name=c04_builder_chain props=C01,C04,C20 bound="2 configured tags" fn=StatsdClientBuilder::with_tag,with_tag_value,with_container_id,build :: the client holds the configured tags in call order (key:value / bare), the container id, and the builder's prefix
    #[kani::proof]
    #[kani::unwind(8)]
    fn c04_builder_chain() {
        let b = StatsdClientBuilder { prefix: String::from("p."), sink: Box::new(Scripted), errors: Box::new(|e: MetricError| std::mem::forget(e)), tags: Vec::new(), container_id: None };
        let cid: bool = kani::any();
        let b = b.with_tag("k0", "v0").with_tag_value("v1");
        let b = if cid { b.with_container_id("cid") } else { b };
        let c = b.build();
        assert!(eq(&c.prefix, "p."), "[C01] build keeps the (normalised) prefix");
        assert!(c.tags.len() == 2, "[C04] every configured default tag is kept, nothing else is added");
        assert!(matches!(c.tags[0], (Some(ref k), ref v) if eq(k, "k0") && eq(v, "v0")), "[C04] default tags keep their configuration order: first key:value");
        assert!(matches!(c.tags[1], (None, ref v) if eq(v, "v1")), "[C04] default tags keep their configuration order: then the bare value");
        assert!(match c.container_id { Some(ref s) => cid && eq(s, "cid"), None => !cid }, "[C04] the default container id is the one configured, absent otherwise");
        kani::cover!(cid, "with container id");
        kani::cover!(!cid, "without container id");
        std::mem::forget(c);
    }
    //@H name=c04_builder_repeat props=C04,C20 bound="3 configured tags, the first configured twice" fn=StatsdClientBuilder::with_tag,with_tag_value,build :: a default tag configured twice is carried twice: "all default tags, in the order they were configured" (nothing is merged, deduplicated or reordered)
    #[kani::proof]
    #[kani::unwind(8)]
    fn c04_builder_repeat() {
        let b = StatsdClientBuilder { prefix: String::from("p."), sink: Box::new(Scripted), errors: Box::new(|e: MetricError| std::mem::forget(e)), tags: Vec::new(), container_id: None };
        let c = b.with_tag("k0", "v0").with_tag("k0", "v0").with_tag_value("v1").build();
        assert!(c.tags.len() == 3, "[C04] every configured default tag is kept, also one configured more than once");
        assert!(matches!(c.tags[0], (Some(ref k), ref v) if eq(k, "k0") && eq(v, "v0")) && matches!(c.tags[1], (Some(ref k), ref v) if eq(k, "k0") && eq(v, "v0")), "[C04] a repeated default tag stays repeated, in place");
        assert!(matches!(c.tags[2], (None, ref v) if eq(v, "v1")), "[C04] the tags after it keep their configuration order");
        kani::cover!(true, "end");
        std::mem::forget(c);
    }
}
