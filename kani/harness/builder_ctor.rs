//@APPEND cadence/src/builder.rs
// C01: the standalone metric value constructors (types.rs) build the same formatter the client builds
// for the same full name and value, hence (by the Verus contract of `format`) the same text.
#[cfg(kani)]
mod verif_ctor {
    use super::*;
    use crate::types::{Counter, Distribution, Gauge, Histogram, Meter, Metric, Set, Timer};
    use std::sync::atomic::{AtomicUsize, Ordering};

    static CALLS: AtomicUsize = AtomicUsize::new(0);
    static SEEN_KIND: AtomicUsize = AtomicUsize::new(99);
    static SEEN_VKIND: AtomicUsize = AtomicUsize::new(99); // 0 signed 1 unsigned 2 float 3 packed
    static SEEN_VAL: AtomicUsize = AtomicUsize::new(0);    // bits of the value
    static SEEN_PLEN: AtomicUsize = AtomicUsize::new(99);
    static SEEN_KLEN: AtomicUsize = AtomicUsize::new(99);
    static SEEN_PLAIN: AtomicUsize = AtomicUsize::new(0);  // 1 = no tags, no optional sections

    fn kind_index(t: &MetricType) -> usize {
        match t { MetricType::Counter => 0, MetricType::Timer => 1, MetricType::Gauge => 2, MetricType::Meter => 3, MetricType::Histogram => 4, MetricType::Set => 5, MetricType::Distribution => 6 }
    }

    /// stands in for `format` (contract proved by Verus): records the formatter it is called on
    fn format_probe<'a>(f: &MetricFormatter<'a>) -> String where 'a: 'a {
        CALLS.fetch_add(1, Ordering::SeqCst);
        SEEN_KIND.store(kind_index(&f.type_), Ordering::SeqCst);
        match &f.val {
            MetricValue::Signed(x) => { SEEN_VKIND.store(0, Ordering::SeqCst); SEEN_VAL.store(*x as u64 as usize, Ordering::SeqCst); }
            MetricValue::Unsigned(x) => { SEEN_VKIND.store(1, Ordering::SeqCst); SEEN_VAL.store(*x as usize, Ordering::SeqCst); }
            MetricValue::Float(x) => { SEEN_VKIND.store(2, Ordering::SeqCst); SEEN_VAL.store(x.to_bits() as usize, Ordering::SeqCst); }
            _ => SEEN_VKIND.store(3, Ordering::SeqCst),
        }
        SEEN_PLEN.store(f.prefix.len(), Ordering::SeqCst);
        SEEN_KLEN.store(f.key.len(), Ordering::SeqCst);
        if f.tags.is_empty() && f.timestamp.is_none() && f.sampling_rate.is_none() && f.container_id.is_none() { SEEN_PLAIN.store(1, Ordering::SeqCst); }
        String::from("x")
    }

    macro_rules! ctor {
        ($name:ident, $call:expr, $kind:expr, $vkind:expr, $t:ty, $bits:expr) => {
            #[kani::proof]
            #[kani::unwind(4)]
            #[kani::stub(crate::builder::MetricFormatter::format, format_probe)]
            fn $name() {
                let v: $t = kani::any();
                let want: usize = ($bits)(v);
                let m = $call("my.app.", "some.key", v);
                assert!(CALLS.load(Ordering::SeqCst) == 1, "[C01] the constructor renders exactly one formatter");
                assert!(SEEN_KIND.load(Ordering::SeqCst) == $kind, "[C01] standalone constructor: the type code is that of the metric type constructed");
                assert!(SEEN_PLEN.load(Ordering::SeqCst) == 7 && SEEN_KLEN.load(Ordering::SeqCst) == 8, "[C01] standalone constructor: the name is prefix then key, as supplied");
                assert!(SEEN_VKIND.load(Ordering::SeqCst) == $vkind && SEEN_VAL.load(Ordering::SeqCst) == want, "[C01,C02] standalone constructor: the value is the one supplied");
                assert!(SEEN_PLAIN.load(Ordering::SeqCst) == 1, "[C01] standalone constructor: no tags and no optional sections");
                assert!(m.as_metric_str().len() == 1, "[C01] the metric's text is exactly what the formatter rendered");
                kani::cover!(true, "end");
                std::mem::forget(m);
            }
        };
    }
    //@H name=c01_ctor_counter props=C01,C20 fn=Counter::new :: Counter::new(prefix,key,i64) == counter formatter on (prefix,key,Signed(v)), all v
    ctor!(c01_ctor_counter, Counter::new, 0, 0, i64, |v: i64| v as u64 as usize);
    //@H name=c01_ctor_timer props=C01,C20 fn=Timer::new :: Timer::new == timer formatter on Unsigned(v)
    ctor!(c01_ctor_timer, Timer::new, 1, 1, u64, |v: u64| v as usize);
    //@H name=c01_ctor_gauge props=C01,C20 fn=Gauge::new :: Gauge::new == gauge formatter on Unsigned(v)
    ctor!(c01_ctor_gauge, Gauge::new, 2, 1, u64, |v: u64| v as usize);
    //@H name=c01_ctor_gauge_f64 props=C01,C20 fn=Gauge::new_f64 :: Gauge::new_f64 == gauge formatter on Float(v), bit-identical
    ctor!(c01_ctor_gauge_f64, Gauge::new_f64, 2, 2, f64, |v: f64| v.to_bits() as usize);
    //@H name=c01_ctor_meter props=C01,C20 fn=Meter::new :: Meter::new == meter formatter on Unsigned(v)
    ctor!(c01_ctor_meter, Meter::new, 3, 1, u64, |v: u64| v as usize);
    //@H name=c01_ctor_histogram props=C01,C20 fn=Histogram::new :: Histogram::new == histogram formatter on Unsigned(v)
    ctor!(c01_ctor_histogram, Histogram::new, 4, 1, u64, |v: u64| v as usize);
    //@H name=c01_ctor_histogram_f64 props=C01,C20 fn=Histogram::new_f64 :: Histogram::new_f64 == histogram formatter on Float(v)
    ctor!(c01_ctor_histogram_f64, Histogram::new_f64, 4, 2, f64, |v: f64| v.to_bits() as usize);
    //@H name=c01_ctor_set props=C01,C20 fn=Set::new :: Set::new == set formatter on Signed(v)
    ctor!(c01_ctor_set, Set::new, 5, 0, i64, |v: i64| v as u64 as usize);
    //@H name=c01_ctor_distribution props=C01,C20 fn=Distribution::new :: Distribution::new == distribution formatter on Unsigned(v)
    ctor!(c01_ctor_distribution, Distribution::new, 6, 1, u64, |v: u64| v as usize);
    //@H name=c01_ctor_distribution_f64 props=C01,C20 fn=Distribution::new_f64 :: Distribution::new_f64 == distribution formatter on Float(v)
    ctor!(c01_ctor_distribution_f64, Distribution::new_f64, 6, 2, f64, |v: f64| v.to_bits() as usize);
}
