//@APPEND cadence/src/sinks/queuing.rs
// C08 C09 C10 C11 C15 C16: Hoare triples on the real queuing.rs against the specification shim of
// crossbeam-channel (K2) and the inline thread shim (hook H2). "The background thread makes
// progress" == a call of the real spawn_worker_in_thread on the same worker: run() keeps no state
// between iterations, so re-entering it is the thread continuing from its blocking recv().
#[cfg(kani)]
mod verif_queuing {
    use super::*;
    use crate::verif_shim::thread::sequential::SPAWNED;
    use std::sync::atomic::AtomicUsize;
    use crossbeam_channel::WOULD_BLOCK;

    static DELIVERED: AtomicUsize = AtomicUsize::new(0);       // number of task invocations
    static ORDER: AtomicUsize = AtomicUsize::new(0);           // base-8 digits: first byte codes of delivered strings, in order
    static WRAPPED_DROPPED: AtomicUsize = AtomicUsize::new(0);
    static HANDLED: AtomicUsize = AtomicUsize::new(0);
    static HANDLED_KIND: AtomicUsize = AtomicUsize::new(99);
    static WRAPPED_OUTCOME: AtomicUsize = AtomicUsize::new(0); // 0 ok, k+1 => Err(kind k)
    static FLUSHED: AtomicUsize = AtomicUsize::new(0);
    static OK_LEN: AtomicUsize = AtomicUsize::new(1);          // byte count PlainSink reports for an accepted metric

    fn kind_of(i: usize) -> ErrorKind { match i { 0 => ErrorKind::Interrupted, 1 => ErrorKind::TimedOut, 2 => ErrorKind::WouldBlock, _ => ErrorKind::Other } }
    fn kind_index(k: ErrorKind) -> usize { match k { ErrorKind::Interrupted => 0, ErrorKind::TimedOut => 1, ErrorKind::WouldBlock => 2, _ => 3 } }

    fn code(v: &str) -> usize { if v.is_empty() { 7 } else { (v.as_bytes()[0] - b'0') as usize } }
    fn record(v: &str) {
        DELIVERED.fetch_add(1, Ordering::SeqCst);
        ORDER.store(ORDER.load(Ordering::SeqCst) * 8 + code(v), Ordering::SeqCst);
    }

    /// wrapped sink used through the real build(): records, answers as scripted, notes its own drop
    struct LogSink;
    impl MetricSink for LogSink {
        fn emit(&self, m: &str) -> io::Result<usize> {
            record(m);
            match WRAPPED_OUTCOME.load(Ordering::SeqCst) { 0 => Ok(m.len()), k => Err(io::Error::from(kind_of(k - 1))) }
        }
        fn flush(&self) -> io::Result<()> { FLUSHED.fetch_add(1, Ordering::SeqCst); Ok(()) }
        fn stats(&self) -> SinkStats { SinkStats { bytes_sent: 11, packets_sent: 22, bytes_dropped: 33, packets_dropped: 44 } }
    }
    impl Drop for LogSink { fn drop(&mut self) { WRAPPED_DROPPED.fetch_add(1, Ordering::SeqCst); } }

    /// wrapped sink that must never be entered on a caller's thread
    struct NeverSink;
    static CALLER_FLUSHED: AtomicUsize = AtomicUsize::new(0);
    impl MetricSink for NeverSink {
        fn emit(&self, _m: &str) -> io::Result<usize> { unreachable!("wrapped sink entered on the caller path") }
        fn flush(&self) -> io::Result<()> { CALLER_FLUSHED.fetch_add(1, Ordering::SeqCst); Ok(()) }
    }

    fn recording_worker(cap: Option<usize>) -> Arc<Worker> { Arc::new(Worker::new(cap, |v: String| { record(&v); std::mem::forget(v); })) }
    fn handle(worker: &Arc<Worker>) -> QueuingMetricSink {
        QueuingMetricSink { worker: worker.clone(), sink: Arc::new(NeverSink), _stopper: Arc::new(WorkerStopper { worker: worker.clone() }) }
    }
    fn qlen(w: &Worker) -> usize { w.receiver.len() }
    fn any_cap() -> Option<usize> {
        if kani::any() { None } else { let c: usize = kani::any(); kani::assume(c >= 1 && c <= 3); Some(c) }
    }
    /// pre-state: `n` entries already queued (n <= 2), arbitrary counters
    fn prefill(w: &Worker, n: usize) {
        if n >= 1 { assert!(w.sender.try_send(Some(String::from("1"))).is_ok()); }
        if n >= 2 { assert!(w.sender.try_send(Some(String::from("2"))).is_ok()); }
    }
    fn any_counters(w: &Worker) -> (u64, u64) {
        let s: u64 = kani::any(); let d: u64 = kani::any();
        kani::assume(s < u64::MAX - 8 && d < u64::MAX - 8);
        w.stats.submitted.store(s, Ordering::SeqCst); w.stats.drained.store(d, Ordering::SeqCst);
        (s, d)
    }

    //@H name=c15_queued_total props=C15,C20 fn=WorkerStats::queued :: queued() == submitted - drained when positive, else 0, for ALL pairs of u64 counter values: never wraps, never exceeds submitted
    #[kani::proof]
    fn c15_queued_total() {
        let st = WorkerStats::new();
        let s: u64 = kani::any(); let d: u64 = kani::any();
        st.submitted.store(s, Ordering::SeqCst); st.drained.store(d, Ordering::SeqCst);
        let q = st.queued();
        assert!(q == if s > d { s - d } else { 0 }, "[C15] queued is the difference of submitted and drained, saturating at zero");
        assert!(q <= s, "[C15] at every moment queued lies between zero and submitted and never wraps around");
        assert!(st.submitted() == s && st.drained() == d, "[C15] the counter accessors return the counters");
        kani::cover!(s > d, "backlog");
        kani::cover!(d > s, "drained ahead of submitted (sampling race)");
    }

    //@H name=c15_submit props=C08,C10,C15,C20 bound="queue occupancy 0..=2, capacity 1..=3 or unbounded" fn=Worker::submit :: submit: Ok => the entry is appended at the tail and submitted+1; Full => queue and counters unchanged; result depends on queue room only
    #[kani::proof]
    #[kani::unwind(5)]
    fn c15_submit() {
        let cap = any_cap();
        let w = recording_worker(cap);
        let n: usize = kani::any();
        kani::assume(n <= 2 && cap.map_or(true, |c| n <= c));
        prefill(&w, n);
        let (s, d) = any_counters(&w);
        let r = w.submit(String::from("3"));
        let room = cap.map_or(true, |c| n < c);
        match r {
            Ok(()) => {
                assert!(room, "[C10] an emit is accepted only while the queue holds fewer entries than its capacity");
                assert!(qlen(&w) == n + 1, "[C08] an accepted metric is queued exactly once");
                assert!(w.stats.submitted() == s + 1, "[C15] submitted counts exactly the accepted emits");
            }
            Err(TrySendError::Full(_)) => {
                assert!(!room, "[C10] an emit is refused only when the bounded queue already holds its capacity");
                assert!(qlen(&w) == n, "[C10] a refused emit leaves the queue unchanged; capacity is never exceeded");
                assert!(w.stats.submitted() == s, "[C15] refused emits are counted nowhere");
            }
            Err(TrySendError::Disconnected(_)) => assert!(false, "[C10] the worker keeps both channel ends: never disconnected"),
        }
        assert!(w.stats.drained() == d, "[C15] submitting does not touch drained");
        assert!(cap.map_or(true, |c| qlen(&w) <= c), "[C10] the capacity of a bounded queue is never exceeded");
        assert!(DELIVERED.load(Ordering::SeqCst) == 0, "[C10] submitting never runs the task on the caller's thread");
        kani::cover!(r.is_ok(), "accepted");
        kani::cover!(r.is_err(), "refused");
        std::mem::forget(r);
        std::mem::forget(w);
    }

    // ---- rely/guarantee on the worker counters (hook H3/H4): other producers / the worker update the same
    // counters concurrently; every update must be ONE atomic read-modify-write
    use crate::verif_shim::atomic::interfered::INTERFERE;

    //@H name=c15_submit_concurrent props=C15,C20 bound="queue occupancy 0..=1, unbounded" fn=Worker::submit,WorkerStats::incr_submitted :: under ARBITRARY concurrent additions by other producers to the same counter, an accepted emit still adds exactly one to submitted and nothing the others added is lost
    #[kani::proof]
    #[kani::unwind(5)]
    fn c15_submit_concurrent() {
        let w = recording_worker(None);
        let (s, _d) = any_counters(&w);
        INTERFERE.store(true, Ordering::SeqCst);
        let r = w.submit(String::from("3"));
        INTERFERE.store(false, Ordering::SeqCst);
        assert!(r.is_ok(), "accepted");
        let o = w.stats.submitted.ghost_others();
        assert!(w.stats.submitted() == s.wrapping_add(o).wrapping_add(1), "[C15] submitted is exact under concurrent producers: this emit and every concurrent one are all counted (one atomic read-modify-write per accepted emit)");
        kani::cover!(o != 0, "interference happened");
        std::mem::forget(r); std::mem::forget(w);
    }

    //@H name=c15_drained_concurrent props=C11,C15,C20 bound="1 queued metric" fn=Worker::run,WorkerStats::incr_drained,incr_panic :: under ARBITRARY concurrent additions (a replacement worker after a panic, other readers), handing over one metric adds exactly one to drained; a sentinel drop adds exactly one to panics
    #[kani::proof]
    #[kani::unwind(5)]
    fn c15_drained_concurrent() {
        let w = recording_worker(None);
        prefill(&w, 1);
        let (_s, d) = any_counters(&w);
        INTERFERE.store(true, Ordering::SeqCst);
        w.run();
        INTERFERE.store(false, Ordering::SeqCst);
        let o = w.stats.drained.ghost_others();
        assert!(DELIVERED.load(Ordering::SeqCst) == 1 && w.stats.drained() == d.wrapping_add(o).wrapping_add(1), "[C15] drained is exact under concurrent updates of the same counter");
        kani::cover!(o != 0, "interference happened");
        std::mem::forget(w);
    }

    //@H name=c10_get_channels props=C10,C20 fn=Worker::get_channels :: a configured capacity creates a bounded queue of exactly that capacity, none creates an unbounded queue
    #[kani::proof]
    #[kani::unwind(5)]
    fn c10_get_channels() {
        let cap = any_cap();
        let (tx, rx) = Worker::get_channels(cap);
        assert!(tx.inner.cap == cap, "[C10] the queue capacity is the configured one (unbounded when none)");
        assert!(Arc::ptr_eq(&tx.inner, &rx.inner), "[C08] sender and receiver are the two ends of one queue");
        kani::cover!(cap.is_none(), "unbounded");
        kani::cover!(cap.is_some(), "bounded");
        std::mem::forget(tx); std::mem::forget(rx);
    }

    //@H name=c10_emit_ok props=C08,C10,C15,C20 bound="queue occupancy 0..=2" fn=QueuingMetricSink::emit :: emit with room: Ok(metric length), exactly that string queued, wrapped sink not entered on the caller thread
    #[kani::proof]
    #[kani::unwind(6)]
    fn c10_emit_ok() {
        let w = recording_worker(None);
        let n: usize = kani::any();
        kani::assume(n <= 2);
        prefill(&w, n);
        let q = handle(&w);
        let r = q.emit("345");
        assert!(matches!(r, Ok(3)), "[C10] emit returns Ok with the metric's byte length whenever the queue has room; an unbounded queue accepts every metric");
        assert!(qlen(&w) == n + 1 && q.submitted() == 1, "[C08,C15] the accepted metric is queued once and counted once");
        assert!(CALLER_FLUSHED.load(Ordering::SeqCst) == 0, "[C10] emit never runs the wrapped sink (emit or flush) on the caller's thread");
        // the queued entry is exactly the string given, behind everything accepted earlier
        let mut k = 0;
        while k < n { let _ = w.receiver.try_recv(); k += 1; }
        assert!(matches!(w.receiver.try_recv(), Ok(Some(ref s)) if s.len() == 3 && s.as_bytes()[0] == b'3' && s.as_bytes()[2] == b'5'), "[C08] exactly the emitted string is queued, behind everything accepted earlier");
        kani::cover!(true, "end");
        std::mem::forget(r); std::mem::forget(q); std::mem::forget(w);
    }

    //@H name=c10_emit_empty props=C08,C10,C15,C20 bound="unbounded queue and capacity 1 (full)" fn=QueuingMetricSink::emit :: a zero-length metric is a metric like any other: accepted => queued and counted, refused when the queue is full
    #[kani::proof]
    #[kani::unwind(6)]
    fn c10_emit_empty() {
        let full: bool = kani::any();
        let w = recording_worker(if full { Some(1) } else { None });
        if full { prefill(&w, 1); }
        let q = handle(&w);
        let r = q.emit("");
        if full {
            assert!(r.is_err() && qlen(&w) == 1 && q.submitted() == 0, "[C10,C15] an empty metric is refused like any other when the bounded queue holds its capacity; nothing is counted");
        } else {
            assert!(matches!(r, Ok(0)), "[C10] emit returns Ok with the metric's byte length (0)");
            assert!(qlen(&w) == 1 && q.submitted() == 1, "[C08,C15] an emit that returned Ok queued its metric and was counted in submitted, also for a zero-length metric");
        }
        kani::cover!(full, "full queue");
        kani::cover!(!full, "room");
        std::mem::forget(r); std::mem::forget(q); std::mem::forget(w);
    }

    //@H name=c10_emit_full props=C10,C15,C20 bound="capacity 1..=2" fn=QueuingMetricSink::emit :: emit on a full bounded queue: an error, nothing queued, nothing counted, wrapped sink not entered
    #[kani::proof]
    #[kani::unwind(6)]
    fn c10_emit_full() {
        let c: usize = kani::any();
        kani::assume(c >= 1 && c <= 2);
        let w = recording_worker(Some(c));
        prefill(&w, c);
        let q = handle(&w);
        let r = q.emit("3");
        assert!(r.is_err(), "[C10] once a bounded queue holds its capacity emit returns an error");
        assert!(qlen(&w) == c && q.submitted() == 0 && q.queued() == 0, "[C10,C15] a refused emit changes neither the queue nor the counters");
        assert!(CALLER_FLUSHED.load(Ordering::SeqCst) == 0, "[C10] a refused emit never runs the wrapped sink (emit or flush) on the caller's thread either: it never waits for it");
        kani::cover!(true, "end");
        std::mem::forget(r); std::mem::forget(q); std::mem::forget(w);
    }

    // -------------------------------------------------------------------------------- run / stop
    static WPTR: AtomicUsize = AtomicUsize::new(0);
    static SEEN_OK: AtomicUsize = AtomicUsize::new(0);
    static SEEN_BAD: AtomicUsize = AtomicUsize::new(0);
    static EXPECT_DRAINED: AtomicUsize = AtomicUsize::new(0);

    macro_rules! run_fifo {
        ($name:ident, $n:expr, $order:expr) => {
            #[kani::proof]
            #[kani::unwind(6)]
            fn $name() {
                let w = recording_worker(None);
                prefill(&w, if $n < 2 { $n } else { 2 });
                if $n == 3 { assert!(w.sender.try_send(Some(String::from("3"))).is_ok()); }
                let (_s, d) = any_counters(&w);
                w.run();
                assert!(DELIVERED.load(Ordering::SeqCst) == $n, "[C08] every queued metric is handed to the task exactly once");
                assert!(ORDER.load(Ordering::SeqCst) == $order, "[C08] metrics are handed over in the order in which they were accepted");
                assert!(w.stats.drained() == d + $n as u64, "[C15] drained counts exactly the metrics handed to the wrapped sink");
                assert!(qlen(&w) == 0, "[C08] nothing accepted stays behind while the worker can run");
                kani::cover!(true, "end");
                std::mem::forget(w);
            }
        };
    }
    //@H name=c08_run_fifo_0 props=C08,C15,C20 bound="empty queue" fn=Worker::run :: run on an empty queue returns at once, delivers and counts nothing
    run_fifo!(c08_run_fifo_0, 0, 0);
    //@H name=c08_run_fifo_2 props=C08,C11,C15,C20 bound="2 queued metrics" fn=Worker::run :: run hands over 2 queued metrics one at a time in queue order, each exactly once; drained+1 per metric
    run_fifo!(c08_run_fifo_2, 2, 8 + 2);
    //@H name=c08_run_fifo_3 props=C08,C11,C15,C20 tier=thorough bound="3 queued metrics" fn=Worker::run :: run hands over 3 queued metrics in queue order, each exactly once
    run_fifo!(c08_run_fifo_3, 3, 64 + 16 + 3);

    //@H name=c09_run_stops_at_marker props=C08,C09,C20 bound="2 metrics, marker, 1 metric" fn=Worker::run :: run: everything queued before the stop marker is delivered first, then the loop ends; it does not consume what follows the marker
    #[kani::proof]
    #[kani::unwind(6)]
    fn c09_run_stops_at_marker() {
        let w = recording_worker(None);
        prefill(&w, 1);
        assert!(w.sender.try_send(None).is_ok());
        assert!(w.sender.try_send(Some(String::from("2"))).is_ok());
        w.run();
        assert!(DELIVERED.load(Ordering::SeqCst) == 1 && ORDER.load(Ordering::SeqCst) == 1, "[C09] metrics accepted before the stop marker are delivered before the loop ends");
        assert!(qlen(&w) == 1, "[C09] the run loop ends at the stop marker");
        assert!(w.stopped.load(Ordering::SeqCst), "[C09] the worker reports that it has stopped");
        kani::cover!(true, "end");
        std::mem::forget(w);
    }

    //@H name=c11_dequeue_before_task props=C11,C15,C20 bound="3 queued metrics" fn=Worker::run :: run: a metric is removed from the queue and counted as drained BEFORE the task is invoked (so a panicking metric is consumed, never re-delivered, and everything behind it stays queued)
    #[kani::proof]
    #[kani::unwind(6)]
    fn c11_dequeue_before_task() {
        let w = Arc::new(Worker::new(None, |v: String| {
            let me = unsafe { &*(WPTR.load(Ordering::SeqCst) as *const Worker) };
            let k = DELIVERED.fetch_add(1, Ordering::SeqCst);
            // at the moment the k-th metric (0-based) is processed: k+1 drained, 2-k still queued
            if me.stats.drained() == EXPECT_DRAINED.load(Ordering::SeqCst) as u64 + k as u64 + 1 && me.receiver.len() == 2 - k { SEEN_OK.fetch_add(1, Ordering::SeqCst); } else { SEEN_BAD.fetch_add(1, Ordering::SeqCst); }
            std::mem::forget(v);
        }));
        WPTR.store(Arc::as_ptr(&w) as usize, Ordering::SeqCst);
        prefill(&w, 2);
        assert!(w.sender.try_send(Some(String::from("3"))).is_ok());
        let d: u64 = kani::any();
        kani::assume(d < 1000);
        w.stats.drained.store(d, Ordering::SeqCst);
        EXPECT_DRAINED.store(d as usize, Ordering::SeqCst);
        w.run();
        assert!(DELIVERED.load(Ordering::SeqCst) == 3, "[C08] all three metrics processed");
        assert!(SEEN_OK.load(Ordering::SeqCst) == 3 && SEEN_BAD.load(Ordering::SeqCst) == 0, "[C11] each metric is dequeued and counted one at a time before the wrapped sink sees it; the metrics behind it are STILL QUEUED while it is processed (a panic loses only the metric being processed)");
        kani::cover!(true, "end");
        std::mem::forget(w);
    }

    macro_rules! stop_at {
        ($name:ident, $cap:expr, $n:expr, $order:expr) => {
            #[kani::proof]
            #[kani::unwind(6)]
            fn $name() {
                let cap: Option<usize> = $cap;
                let w = recording_worker(cap);
                prefill(&w, $n);
                let had_room = cap.map_or(true, |c| $n < c);
                w.stop();
                assert!(DELIVERED.load(Ordering::SeqCst) == 0, "[C09,C10] stop never runs the wrapped sink on the dropping thread");
                assert!(w.stop_requested.load(Ordering::SeqCst), "[C09] the stop request is recorded for every occupancy (the worker re-checks it after each metric, so a stop racing with a draining worker is not lost)");
                assert!(qlen(&w) == $n + if had_room { 1 } else { 0 }, "[C09] whenever the queue has room the stop marker is queued as well, so that a worker parked in recv() is woken up");
                // the background thread continues from wherever it was blocked
                w.stopped.store(false, Ordering::SeqCst);
                w.run();
                assert!(DELIVERED.load(Ordering::SeqCst) == $n, "[C08,C09] every metric accepted before the last drop is still handed to the wrapped sink");
                assert!(ORDER.load(Ordering::SeqCst) == $order, "[C08,C09] in acceptance order");
                assert!(w.stopped.load(Ordering::SeqCst) && WOULD_BLOCK.load(Ordering::SeqCst) == 0, "[C09] after draining, the run loop terminates by itself (it does not park in recv() again)");
                // and it terminates for good: a restart after a panic on the LAST metric returns at once too
                w.stopped.store(false, Ordering::SeqCst);
                w.run();
                assert!(DELIVERED.load(Ordering::SeqCst) == $n, "[C09,C11] a stopped worker delivers nothing twice");
                assert!(w.stopped.load(Ordering::SeqCst) && WOULD_BLOCK.load(Ordering::SeqCst) == 0, "[C09,C11] a worker restarted while a stop is pending and nothing is queued ends at once instead of parking forever");
                kani::cover!(true, "end");
                std::mem::forget(w);
            }
        };
    }
    //@H name=c09_stop_idle props=C08,C09,C20 bound="capacity 2, empty queue" fn=Worker::stop + Worker::run :: stop on an idle worker: the marker wakes it, the loop ends, nothing blocks
    stop_at!(c09_stop_idle, Some(2), 0, 0);
    //@H name=c09_stop_full_1 props=C08,C09,C20 bound="capacity 1, completely full (1 queued)" fn=Worker::stop + Worker::run :: stop on a completely full capacity-1 queue (no marker can be queued): the metric is delivered, then the loop ends by the recorded request
    stop_at!(c09_stop_full_1, Some(1), 1, 1);
    //@H name=c09_stop_full_2 props=C08,C09,C20 bound="capacity 2, completely full (2 queued)" fn=Worker::stop + Worker::run :: stop on a completely full capacity-2 queue: both delivered in order, then the loop ends
    stop_at!(c09_stop_full_2, Some(2), 2, 8 + 2);
    //@H name=c09_stop_room props=C08,C09,C20 bound="capacity 3, 1 queued" fn=Worker::stop + Worker::run :: stop with room left: metric delivered, marker taken, loop ends
    stop_at!(c09_stop_room, Some(3), 1, 1);
    //@H name=c09_stop_unbounded props=C08,C09,C20 bound="unbounded queue, 2 queued" fn=Worker::stop + Worker::run :: stop on an unbounded queue: both delivered in order, marker taken, loop ends
    stop_at!(c09_stop_unbounded, None, 2, 8 + 2);

    //@H name=c09_stop_terminates_thread props=C08,C09,C11,C20 bound="capacity 1..=2, full queue" fn=spawn_worker_in_thread :: the spawned closure creates the sentinel, runs the worker and cancels the sentinel: a normal stop ends the thread without restart and without counting a panic
    #[kani::proof]
    #[kani::unwind(6)]
    fn c09_stop_terminates_thread() {
        let c: usize = kani::any();
        kani::assume(c >= 1 && c <= 2);
        let w = recording_worker(Some(c));
        prefill(&w, c);
        w.stop();
        let before = SPAWNED.load(Ordering::SeqCst);
        spawn_worker_in_thread(w.clone());
        assert!(SPAWNED.load(Ordering::SeqCst) == before + 1, "[C11] a normal return of the worker does not restart it");
        assert!(w.stats.panics() == 0, "[C11] the panic count equals the number of panics that occurred (none)");
        assert!(DELIVERED.load(Ordering::SeqCst) == c && w.stopped.load(Ordering::SeqCst) && WOULD_BLOCK.load(Ordering::SeqCst) == 0, "[C08,C09] drained, then the thread ended by itself");
        assert!(Arc::strong_count(&w) == 1, "[C09] the thread released its reference to the worker when it ended");
        kani::cover!(true, "end");
        std::mem::forget(w);
    }

    //@H name=c11_sentinel_active props=C08,C09,C11,C20 bound="2 queued metrics" fn=Sentinel::drop :: a sentinel dropped while active (the thread is unwinding from a panic): panics+1 and exactly one restart of the SAME worker, which goes on delivering the queued metrics in order
    #[kani::proof]
    #[kani::unwind(6)]
    fn c11_sentinel_active() {
        let w = recording_worker(None);
        prefill(&w, 2);
        let p: u64 = kani::any();
        kani::assume(p < 1000);
        w.stats.panics.store(p, Ordering::SeqCst);
        let before = SPAWNED.load(Ordering::SeqCst);
        {
            let s = Sentinel::new(&w);
            drop(s);
        }
        assert!(w.stats.panics() == p + 1, "[C11] the reported panic count grows by one per panic");
        assert!(SPAWNED.load(Ordering::SeqCst) == before + 1, "[C08,C09,C11] exactly one replacement thread is started per panic, whether or not any handle is still alive");
        assert!(DELIVERED.load(Ordering::SeqCst) == 2 && ORDER.load(Ordering::SeqCst) == 8 + 2, "[C08,C09,C11] the replacement thread serves the same queue: the other accepted metrics are delivered once, in order");
        kani::cover!(true, "end");
        std::mem::forget(w);
    }

    //@H name=c11_sentinel_cancelled props=C11,C20 fn=Sentinel::cancel,drop :: a cancelled sentinel does nothing when dropped
    #[kani::proof]
    #[kani::unwind(6)]
    fn c11_sentinel_cancelled() {
        let w = recording_worker(None);
        prefill(&w, 1);
        let before = SPAWNED.load(Ordering::SeqCst);
        {
            let mut s = Sentinel::new(&w);
            s.cancel();
            drop(s);
        }
        assert!(w.stats.panics() == 0 && SPAWNED.load(Ordering::SeqCst) == before && DELIVERED.load(Ordering::SeqCst) == 0, "[C11] no panic is counted and no thread is started when the worker returned normally");
        kani::cover!(true, "end");
        std::mem::forget(w);
    }

    //@H name=c11_panic_while_stop_pending props=C08,C09,C11,C20 bound="capacity 2, full queue" fn=Sentinel::drop + Worker::run :: a panic while a stop is pending on a FULL queue (no marker could be queued): the restarted worker still delivers what is left and then ends
    #[kani::proof]
    #[kani::unwind(6)]
    fn c11_panic_while_stop_pending() {
        let w = recording_worker(Some(2));
        prefill(&w, 2);
        w.stop();                                   // queue full: the marker is refused, only the request is recorded
        let _ = w.receiver.try_recv();              // the thread took metric "1" and panicked inside the wrapped sink
        w.stats.incr_drained();
        { let s = Sentinel::new(&w); drop(s); }     // unwinding drops the active sentinel
        assert!(DELIVERED.load(Ordering::SeqCst) == 1 && ORDER.load(Ordering::SeqCst) == 2, "[C08,C09,C11] only the panicking metric is consumed; the metric behind it is still delivered although every handle is gone");
        assert!(w.stopped.load(Ordering::SeqCst) && qlen(&w) == 0 && WOULD_BLOCK.load(Ordering::SeqCst) == 0, "[C09] the pending stop still takes effect after the restart: the thread ends instead of parking in recv()");
        assert!(w.stats.panics() == 1, "[C11] one panic counted");
        kani::cover!(true, "end");
        std::mem::forget(w);
    }

    //@H name=c11_panic_on_last_while_stop_pending props=C09,C11,C20 bound="capacity 1, full queue" fn=Sentinel::drop + Worker::run :: a panic on the LAST queued metric while a stop is pending on a full queue: the restarted worker finds nothing to do and ends (it must not park in recv() forever, which would keep the wrapped sink alive)
    #[kani::proof]
    #[kani::unwind(6)]
    fn c11_panic_on_last_while_stop_pending() {
        let w = recording_worker(Some(1));
        prefill(&w, 1);
        w.stop();                                   // queue full: the marker is refused, only the request is recorded
        let _ = w.receiver.try_recv();              // the thread took the last metric and panicked inside the wrapped sink
        w.stats.incr_drained();
        { let s = Sentinel::new(&w); drop(s); }     // unwinding drops the active sentinel: restart
        assert!(DELIVERED.load(Ordering::SeqCst) == 0 && w.stats.panics() == 1, "[C11] only the panicking metric is consumed; one panic counted");
        assert!(w.stopped.load(Ordering::SeqCst) && WOULD_BLOCK.load(Ordering::SeqCst) == 0, "[C09] the restarted worker sees the pending stop and ends; it does not park in recv() forever");
        kani::cover!(true, "end");
        std::mem::forget(w);
    }

    // ----------------------------------------------- stop racing with the worker's blocking receive
    /// what the last handle's drop does, performed by "another thread" at the entry of the worker's recv()
    fn stop_hook() { let me = unsafe { &*(WPTR.load(Ordering::SeqCst) as *const Worker) }; me.stop(); }

    macro_rules! stop_races_recv {
        ($name:ident, $cap:expr) => {
            #[kani::proof]
            #[kani::unwind(6)]
            fn $name() {
                let w = recording_worker($cap);
                WPTR.store(Arc::as_ptr(&w) as usize, Ordering::SeqCst);
                // the worker has looked at the stop request (not set) and is about to block in recv();
                // exactly then the last handle is dropped on another thread
                unsafe { crossbeam_channel::BEFORE_RECV = Some(stop_hook); }
                w.run();
                assert!(w.stop_requested.load(Ordering::SeqCst), "the interfering stop ran");
                assert!(w.stopped.load(Ordering::SeqCst) && WOULD_BLOCK.load(Ordering::SeqCst) == 0, "[C09] a stop that arrives between the worker's check of the stop request and its blocking receive is not lost: the background thread terminates (it does not park in recv() forever), for every queue capacity");
                assert!(DELIVERED.load(Ordering::SeqCst) == 0, "[C09] nothing is invented");
                kani::cover!(true, "end");
                std::mem::forget(w);
            }
        };
    }
    //@H name=c09_stop_races_recv_cap0 props=C09,C20 bound="capacity 0 (rendezvous queue), empty; one interfering stop() at the entry of recv()" fn=Worker::run + Worker::stop :: rendezvous queue: the stop marker cannot be handed over unless the worker is already waiting, so a stop arriving just before the worker blocks must be noticed some other way
    stop_races_recv!(c09_stop_races_recv_cap0, Some(0));
    //@H name=c09_stop_races_recv_cap1 props=C09,C20 bound="capacity 1, empty; one interfering stop() at the entry of recv()" fn=Worker::run + Worker::stop :: bounded queue with room: the marker queued by the racing stop is received and ends the loop
    stop_races_recv!(c09_stop_races_recv_cap1, Some(1));
    //@H name=c09_stop_races_recv_unbounded props=C09,C20 tier=thorough bound="unbounded, empty; one interfering stop() at the entry of recv()" fn=Worker::run + Worker::stop :: unbounded queue: same
    stop_races_recv!(c09_stop_races_recv_unbounded, None);

    //@H name=c09_cap0_parked_then_stop props=C08,C09,C20 bound="capacity 0; history: worker parks, emit (handed over), last drop, worker resumes" fn=QueuingMetricSink::emit,drop + Worker::run :: rendezvous queue, worker already waiting: an emit is handed to it directly; the stop requested afterwards ends the thread once that metric has been delivered
    #[kani::proof]
    #[kani::unwind(6)]
    fn c09_cap0_parked_then_stop() {
        let w = recording_worker(Some(0));
        let q = handle(&w);
        w.run();                                    // the background thread starts and parks in recv()
        assert!(WOULD_BLOCK.load(Ordering::SeqCst) == 1 && DELIVERED.load(Ordering::SeqCst) == 0, "parked");
        WOULD_BLOCK.store(0, Ordering::SeqCst);
        let r = q.emit("1");
        assert!(r.is_ok(), "a waiting worker takes the metric");
        drop(q);                                    // last handle: the worker is busy, no marker can be handed over
        assert!(DELIVERED.load(Ordering::SeqCst) == 0, "[C09,C10] dropping a handle never runs the wrapped sink on the dropping thread");
        w.stopped.store(false, Ordering::SeqCst);
        w.run();                                    // the background thread continues with the metric it was handed
        assert!(DELIVERED.load(Ordering::SeqCst) == 1 && ORDER.load(Ordering::SeqCst) == 1, "[C08,C09] the metric accepted before the last drop is still handed to the wrapped sink");
        assert!(w.stopped.load(Ordering::SeqCst) && WOULD_BLOCK.load(Ordering::SeqCst) == 0, "[C09] then the background thread terminates");
        kani::cover!(true, "end");
        std::mem::forget(r); std::mem::forget(w);
    }

    // ------------------------------------------------------------------- through the real build()
    /// wrapped sink without a destructor (cheaper for CBMC than LogSink)
    struct PlainSink;
    impl MetricSink for PlainSink {
        fn emit(&self, m: &str) -> io::Result<usize> {
            record(m);
            match WRAPPED_OUTCOME.load(Ordering::SeqCst) { 0 => Ok(OK_LEN.load(Ordering::SeqCst)), k => Err(io::Error::from(kind_of(k - 1))) }
        }
        fn flush(&self) -> io::Result<()> { FLUSHED.fetch_add(1, Ordering::SeqCst); Ok(()) }
        fn stats(&self) -> SinkStats { SinkStats { bytes_sent: 11, packets_sent: 22, bytes_dropped: 33, packets_dropped: 44 } }
    }
    fn handler(e: io::Error) { HANDLED.fetch_add(1, Ordering::SeqCst); HANDLED_KIND.store(kind_index(e.kind()), Ordering::SeqCst); std::mem::forget(e); }

    //@H name=c10_builder_keeps_config props=C10,C16,C20 fn=QueuingMetricSinkBuilder::with_capacity,with_error_handler :: the builder keeps BOTH settings whatever the order in which they are given
    #[kani::proof]
    #[kani::unwind(6)]
    fn c10_builder_keeps_config() {
        let c: usize = kani::any();
        let first: bool = kani::any();
        let b = if first { QueuingMetricSinkBuilder::new().with_capacity(c).with_error_handler(|e: io::Error| handler(e)) }
                else { QueuingMetricSinkBuilder::new().with_error_handler(|e: io::Error| handler(e)).with_capacity(c) };
        assert!(b.capacity == Some(c), "[C10] the configured capacity is kept (a bounded queue stays bounded)");
        assert!(b.error_handler.is_some(), "[C16] the configured error handler is kept");
        let d = QueuingMetricSinkBuilder::new();
        assert!(d.capacity.is_none() && d.error_handler.is_none(), "[C10,C16] nothing is configured by default: unbounded queue, errors discarded");
        kani::cover!(first, "capacity first");
        kani::cover!(!first, "handler first");
        std::mem::forget(b); std::mem::forget(d);
    }

    //@H name=c16_handler_on_error props=C08,C15,C16,C20 fn=QueuingMetricSinkBuilder::with_error_handler,with_capacity,build (task closure) :: the task built by build(): the wrapped sink fails => the configured handler is invoked exactly once with that error before the task returns (handler configured BEFORE the capacity)
    #[kani::proof]
    #[kani::unwind(2)]
    fn c16_handler_on_error() {
        let k: usize = kani::any();
        kani::assume(k < 2);
        WRAPPED_OUTCOME.store(k + 1, Ordering::SeqCst);
        let q = QueuingMetricSinkBuilder::new().with_error_handler(|e: io::Error| handler(e)).with_capacity(2).build(PlainSink);
        (q.worker.task)(String::from("1"));
        assert!(DELIVERED.load(Ordering::SeqCst) == 1, "[C08,C15,C16] the task hands the metric to the wrapped sink exactly once, also when the sink fails (no retry: drained counts hand-overs)");
        assert!(HANDLED.load(Ordering::SeqCst) == 1, "[C16] the handler is invoked exactly once per wrapped-sink failure, before the next metric is processed");
        assert!(HANDLED_KIND.load(Ordering::SeqCst) == k, "[C16] the handler receives the wrapped sink's own error");
        assert!(q.worker.sender.inner.cap == Some(2), "[C10] the configured capacity reaches the queue");
        kani::cover!(true, "end");
        std::mem::forget(q);
    }

    //@H name=c16_handler_on_error_rev mem=heavy props=C16,C20 tier=thorough fn=QueuingMetricSinkBuilder::with_capacity,with_error_handler,build :: same with the capacity configured BEFORE the handler
    #[kani::proof]
    #[kani::unwind(3)]
    fn c16_handler_on_error_rev() {
        WRAPPED_OUTCOME.store(1, Ordering::SeqCst);
        let q = QueuingMetricSinkBuilder::new().with_capacity(2).with_error_handler(|e: io::Error| handler(e)).build(PlainSink);
        (q.worker.task)(String::from("1"));
        assert!(HANDLED.load(Ordering::SeqCst) == 1 && HANDLED_KIND.load(Ordering::SeqCst) == 0, "[C16] the handler is invoked exactly once with the wrapped sink's error");
        assert!(q.worker.sender.inner.cap == Some(2), "[C10] the configured capacity reaches the queue");
        kani::cover!(true, "end");
        std::mem::forget(q);
    }

    //@H name=c16_handler_not_on_ok props=C08,C16,C20 fn=QueuingMetricSinkBuilder::build (task closure) :: the handler is never invoked for a metric the wrapped sink accepted
    #[kani::proof]
    #[kani::unwind(2)]
    fn c16_handler_not_on_ok() {
        WRAPPED_OUTCOME.store(0, Ordering::SeqCst);
        OK_LEN.store(kani::any(), Ordering::SeqCst);      // any byte count, 0 included: Ok is Ok
        let q = QueuingMetricSinkBuilder::new().with_error_handler(|e: io::Error| handler(e)).build(PlainSink);
        (q.worker.task)(String::from("1"));
        assert!(DELIVERED.load(Ordering::SeqCst) == 1 && HANDLED.load(Ordering::SeqCst) == 0, "[C08,C16] a metric the wrapped sink accepted (whatever byte count it reports) is handed over once and the handler is never invoked for it");
        assert!(q.worker.sender.inner.cap.is_none(), "[C10] without a configured capacity the queue is unbounded");
        kani::cover!(true, "end");
        std::mem::forget(q);
    }

    static HANDLED_OLD: AtomicUsize = AtomicUsize::new(0);
    //@H name=c16_last_handler_wins props=C16,C20 fn=QueuingMetricSinkBuilder::with_error_handler (twice),build :: the handler configured on the sink is the one given LAST: it is invoked once per failure, a handler it replaced never
    #[kani::proof]
    #[kani::unwind(2)]
    fn c16_last_handler_wins() {
        WRAPPED_OUTCOME.store(2, Ordering::SeqCst);
        let q = QueuingMetricSinkBuilder::new()
            .with_error_handler(|e: io::Error| { HANDLED_OLD.fetch_add(1, Ordering::SeqCst); std::mem::forget(e); })
            .with_error_handler(|e: io::Error| handler(e))
            .build(PlainSink);
        (q.worker.task)(String::from("1"));
        assert!(HANDLED.load(Ordering::SeqCst) == 1 && HANDLED_KIND.load(Ordering::SeqCst) == 1, "[C16] the error handler configured on the queuing sink (the one set last) is invoked exactly once with the wrapped sink's error");
        assert!(HANDLED_OLD.load(Ordering::SeqCst) == 0, "[C16] a handler that was replaced before build is never invoked");
        kani::cover!(true, "end");
        std::mem::forget(q);
    }

    //@H name=c09_build_task_owns_sink props=C08,C09,C20 fn=QueuingMetricSinkBuilder::build :: ownership built by build(): the worker's task holds its OWN strong reference to the wrapped sink, so the sink outlives the handles until the queue is drained and the thread has ended
    #[kani::proof]
    #[kani::unwind(2)]
    fn c09_build_task_owns_sink() {
        let q = QueuingMetricSink::from(PlainSink);
        assert!(Arc::strong_count(&q.sink) >= 2, "[C08,C09] besides the handle, the worker's task keeps the wrapped sink alive: metrics still queued when the last handle is dropped can be handed to it");
        kani::cover!(true, "end");
        std::mem::forget(q);
    }

    //@H name=c16_no_handler props=C08,C15,C16,C20 fn=QueuingMetricSinkBuilder::build (task closure) :: without a handler the wrapped sink's error is discarded and the task returns normally
    #[kani::proof]
    #[kani::unwind(2)]
    fn c16_no_handler() {
        WRAPPED_OUTCOME.store(1, Ordering::SeqCst);
        let q = QueuingMetricSink::from(PlainSink);
        (q.worker.task)(String::from("1"));
        assert!(DELIVERED.load(Ordering::SeqCst) == 1 && HANDLED.load(Ordering::SeqCst) == 0, "[C08,C15,C16] without a handler the error is discarded after ONE hand-over; nothing surfaces");
        kani::cover!(true, "end");
        std::mem::forget(q);
    }

    //@H name=c06_flush_stats_delegate props=C06,C08,C10,C12,C14,C20 bound="1 queued metric" fn=QueuingMetricSink::flush,stats :: flush and stats of the queuing sink are exactly those of the wrapped sink; neither consumes the queue nor runs the wrapped emit on the caller thread
    #[kani::proof]
    #[kani::unwind(6)]
    fn c06_flush_stats_delegate() {
        let w = recording_worker(None);
        prefill(&w, 1);
        let q = QueuingMetricSink { worker: w.clone(), sink: Arc::new(PlainSink), _stopper: Arc::new(WorkerStopper { worker: w.clone() }) };
        assert!(q.flush().is_ok() && FLUSHED.load(Ordering::SeqCst) == 1, "[C06] flushing through the queuing wrapper flushes the wrapped sink exactly once");
        let st = q.stats();
        assert!(st.bytes_sent == 11 && st.packets_sent == 22 && st.bytes_dropped == 33 && st.packets_dropped == 44, "[C14] the figures are identical when read through a wrapping queuing sink");
        assert!(DELIVERED.load(Ordering::SeqCst) == 0 && qlen(&w) == 1 && w.stats.drained() == 0, "[C08,C10,C12] neither flush nor stats consumes the queue or runs the wrapped sink's emit on the caller's thread: queued metrics are delivered by the single background thread only");
        kani::cover!(true, "end");
        std::mem::forget(q); std::mem::forget(w);
    }

    //@H name=c08_clone_drop_emit props=C08,C09,C10,C20 bound="history: clone, drop clone, emit on original, worker resumes" fn=QueuingMetricSink::clone,drop,emit :: dropping a clone while another handle is alive does not stop the worker: a metric accepted afterwards on the live handle is still delivered
    #[kani::proof]
    #[kani::unwind(6)]
    fn c08_clone_drop_emit() {
        let w = recording_worker(Some(2));
        let q = handle(&w);
        let q2 = q.clone();
        drop(q2);
        w.run();                                    // the background thread gets a turn
        let r = q.emit("1");
        assert!(matches!(r, Ok(1)), "[C10] the live handle still accepts");
        w.run();                                    // and another one
        assert!(DELIVERED.load(Ordering::SeqCst) == 1 && ORDER.load(Ordering::SeqCst) == 1, "[C08] a metric accepted on a live handle after another handle was dropped is delivered exactly once");
        kani::cover!(true, "end");
        std::mem::forget(r); std::mem::forget(q); std::mem::forget(w);
    }

    //@H name=c09_last_drop_stops props=C08,C09,C20 bound="capacity 1, full queue; history: emit, clone, drop both handles, worker resumes" fn=Drop of the last QueuingMetricSink handle :: dropping the LAST handle with a completely full queue requests the stop without blocking or running the wrapped sink; the worker drains and then stops
    #[kani::proof]
    #[kani::unwind(6)]
    fn c09_last_drop_stops() {
        let w = recording_worker(Some(1));
        let q = handle(&w);
        let q2 = q.clone();
        let r = q.emit("1");
        assert!(r.is_ok() && qlen(&w) == 1, "queue completely full");
        drop(q);
        assert!(!w.stop_requested.load(Ordering::SeqCst), "[C08] no stop while another handle is alive");
        drop(q2);                                   // last handle
        assert!(DELIVERED.load(Ordering::SeqCst) == 0, "[C09,C10] dropping a handle never runs the wrapped sink on the dropping thread");
        w.run();                                    // the background thread continues
        assert!(DELIVERED.load(Ordering::SeqCst) == 1, "[C08,C09] every metric accepted before the last drop is still handed to the wrapped sink");
        assert!(w.stopped.load(Ordering::SeqCst) && qlen(&w) == 0 && WOULD_BLOCK.load(Ordering::SeqCst) == 0, "[C09] then the background thread terminates (it does not park in recv() again)");
        kani::cover!(true, "end");
        std::mem::forget(r); std::mem::forget(w);
    }

    //@H name=c08_build_clone_drop mem=heavy props=C08,C09,C20 tier=thorough bound="history through the real build(): clone, drop the clone, submit, worker runs" fn=QueuingMetricSinkBuilder::build + Clone + Drop :: handles created by the real build(): dropping a clone while the original is alive requests no stop; a metric accepted afterwards is delivered
    #[kani::proof]
    #[kani::unwind(3)]
    fn c08_build_clone_drop() {
        WRAPPED_OUTCOME.store(0, Ordering::SeqCst);
        let q = QueuingMetricSink::with_capacity(PlainSink, 2);
        let q2 = q.clone();
        drop(q2);
        assert!(!q.worker.stop_requested.load(Ordering::SeqCst) && qlen(&q.worker) == 0, "[C08] dropping a handle while another is alive neither requests a stop nor queues a stop marker");
        assert!(q.worker.submit(String::from("1")).is_ok());
        q.worker.run();
        assert!(DELIVERED.load(Ordering::SeqCst) == 1, "[C08] a metric accepted on the live handle afterwards is delivered");
        kani::cover!(true, "end");
        std::mem::forget(q);
    }

    //@H name=c09_build_releases_wrapped mem=heavy props=C09,C20 tier=thorough bound="history: build, drop last handle, thread ends" fn=QueuingMetricSinkBuilder::build + Drop :: ownership built by build(): once the last handle is gone and the thread has ended, the wrapped sink itself is dropped (so a wrapped buffered sink flushes)
    #[kani::proof]
    #[kani::unwind(4)]
    fn c09_build_releases_wrapped() {
        let q = QueuingMetricSink::from(LogSink);
        let w = q.worker.clone();
        drop(q);                                    // last handle
        assert!(WRAPPED_DROPPED.load(Ordering::SeqCst) == 0, "the worker still owns the wrapped sink through its task");
        spawn_worker_in_thread(w.clone());          // the background thread sees the stop request and ends
        assert!(w.stopped.load(Ordering::SeqCst) && Arc::strong_count(&w) == 1, "[C09] the thread ended and released the worker");
        drop(w);
        assert!(WRAPPED_DROPPED.load(Ordering::SeqCst) == 1, "[C09] the wrapped sink itself is dropped");
        kani::cover!(true, "end");
    }
}
