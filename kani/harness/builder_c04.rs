//@APPEND cadence/src/builder.rs
// C04 (+C01 plumbing): structure-level triples on the seven real `*_with_tags` impls and the
// MetricBuilder methods. The harness lives in builder.rs so it can read the formatter directly;
// no formatting is involved (the rendering of these fields is the Verus obligation of C01).
#[cfg(kani)]
mod verif_c04 {
    use super::*;
    use crate::client::verif_client::{cid_of, mk_client, prefix_of, tags_of};
    use crate::client::{Counted, CountedExt, Distributed, Gauged, Histogrammed, Metered, Setted, Timed};

    fn tag(bare: bool, k: &'static str, v: &'static str) -> (Option<String>, String) {
        (if bare { None } else { Some(String::from(k)) }, String::from(v))
    }

    /// n default tags (each key:value or bare, chosen symbolically), optional default container id
    fn any_client(n: usize) -> StatsdClient {
        let mut tags: Vec<(Option<String>, String)> = Vec::with_capacity(3);
        if n >= 1 { tags.push(tag(kani::any(), "k0", "v0")); }
        if n >= 2 { tags.push(tag(kani::any(), "k1", "v1")); }
        if n >= 3 { tags.push(tag(kani::any(), "k2", "v2")); }
        let cid = if kani::any() { Some(String::from("cid")) } else { None };
        mk_client(String::from("pre."), tags, cid)
    }

    /// n default tags with a fixed shape (keyed, bare, keyed) and a default container id
    fn fixed_client(n: usize) -> StatsdClient {
        let mut tags: Vec<(Option<String>, String)> = Vec::with_capacity(3);
        if n >= 1 { tags.push(tag(false, "k0", "v0")); }
        if n >= 2 { tags.push(tag(true, "k1", "v1")); }
        if n >= 3 { tags.push(tag(false, "k2", "v2")); }
        mk_client(String::from("pre."), tags, Some(String::from("cid")))
    }

    fn same(a: &str, b: &str) -> bool { a.as_ptr() == b.as_ptr() && a.len() == b.len() }

    /// the formatter carries exactly the client's defaults, in order, then `extra` per-call tags
    fn defaults_first<'a>(f: &MetricFormatter<'a>, c: &'a StatsdClient, extra: usize) -> bool {
        let d = tags_of(c);
        if f.tags.len() != d.len() + extra { return false; }
        let mut i = 0;
        while i < d.len() {
            let (fk, fv) = f.tags[i];
            let ok = same(fv, d[i].1.as_str()) && match (fk, d[i].0.as_deref()) { (Some(a), Some(b)) => same(a, b), (None, None) => true, _ => false };
            if !ok { return false; }
            i += 1;
        }
        true
    }

    macro_rules! with_tags {
        ($name:ident, $n:expr, $method:ident, $variant:ident, $v:ident = $val:expr, $mv:pat, $mvcheck:expr) => {
            #[kani::proof]
            #[kani::unwind(5)]
            fn $name() {
                let client = any_client($n);
                let key = "the.key";
                let $v = $val;
                let b = client.$method(key, $v);
                match b.repr {
                    BuilderRepr::Success(ref f, c) => {
                        assert!(std::ptr::eq(c, &client), "[C03] the builder sends through the client that created it");
                        assert!(matches!(f.type_, MetricType::$variant), "[C01] the type code is that of the kind that was called");
                        assert!(same(f.prefix, prefix_of(&client)), "[C01] the name starts with the client's prefix");
                        assert!(same(f.key, key), "[C01] the name ends with the key supplied");
                        assert!(match f.val { $mv => $mvcheck, _ => false }, "[C01,C02] the value is the one supplied");
                        assert!(f.timestamp.is_none() && f.sampling_rate.is_none(), "[C01] no timestamp or sampling rate unless supplied");
                        assert!(defaults_first(f, &client, 0), "[C04] every metric carries all default tags, in the order they were configured; a client without defaults adds nothing");
                        assert!(match (f.container_id, cid_of(&client)) { (Some(a), Some(b)) => same(a, b), (None, None) => true, _ => false },
                            "[C04] the metric carries the default container id exactly when one is configured");
                    }
                    BuilderRepr::Error(..) => assert!(false, "[C03] a valid value is never rejected"),
                }
                kani::cover!(cid_of(&client).is_some(), "default container id");
                kani::cover!(cid_of(&client).is_none(), "no container id");

                std::mem::forget(b);
                std::mem::forget(client);
            }
        };
    }

    //@H name=c04_count_0 props=C01,C04,C20 bound="0 default tags" fn=Counted::count_with_tags :: count_with_tags on a client without default tags: nothing added
    with_tags!(c04_count_0, 0, count_with_tags, Counter, v = kani::any::<i64>(), MetricValue::Signed(x), x == v);
    //@H name=c04_count_1 props=C01,C04,C20 tier=thorough bound="1 default tag" fn=Counted::count_with_tags :: count_with_tags with 1 default tag
    with_tags!(c04_count_1, 1, count_with_tags, Counter, v = kani::any::<i64>(), MetricValue::Signed(x), x == v);
    //@H name=c04_count_2 props=C01,C04,C20 bound="2 default tags" fn=Counted::count_with_tags :: count_with_tags with 2 default tags (each key:value or bare)
    with_tags!(c04_count_2, 2, count_with_tags, Counter, v = kani::any::<i64>(), MetricValue::Signed(x), x == v);
    //@H name=c04_count_3 props=C01,C04,C20 tier=thorough bound="3 default tags" fn=Counted::count_with_tags :: count_with_tags with 3 default tags
    with_tags!(c04_count_3, 3, count_with_tags, Counter, v = kani::any::<i64>(), MetricValue::Signed(x), x == v);
    //@H name=c04_time_2 props=C01,C04,C20 bound="2 default tags" fn=Timed::time_with_tags :: time_with_tags with 2 default tags
    with_tags!(c04_time_2, 2, time_with_tags, Timer, v = kani::any::<u64>(), MetricValue::Unsigned(x), x == v);
    //@H name=c04_gauge_2 props=C01,C04,C20 bound="2 default tags" fn=Gauged::gauge_with_tags :: gauge_with_tags with 2 default tags
    with_tags!(c04_gauge_2, 2, gauge_with_tags, Gauge, v = kani::any::<u64>(), MetricValue::Unsigned(x), x == v);
    //@H name=c04_meter_2 props=C01,C04,C20 bound="2 default tags" fn=Metered::meter_with_tags :: meter_with_tags with 2 default tags
    with_tags!(c04_meter_2, 2, meter_with_tags, Meter, v = kani::any::<u64>(), MetricValue::Unsigned(x), x == v);
    //@H name=c04_hist_2 props=C01,C04,C20 bound="2 default tags" fn=Histogrammed::histogram_with_tags :: histogram_with_tags with 2 default tags
    with_tags!(c04_hist_2, 2, histogram_with_tags, Histogram, v = kani::any::<u64>(), MetricValue::Unsigned(x), x == v);
    //@H name=c04_dist_2 props=C01,C04,C20 bound="2 default tags" fn=Distributed::distribution_with_tags :: distribution_with_tags with 2 default tags
    with_tags!(c04_dist_2, 2, distribution_with_tags, Distribution, v = kani::any::<u64>(), MetricValue::Unsigned(x), x == v);
    //@H name=c04_set_2 props=C01,C04,C20 bound="2 default tags" fn=Setted::set_with_tags :: set_with_tags with 2 default tags
    with_tags!(c04_set_2, 2, set_with_tags, Set, v = kani::any::<i64>(), MetricValue::Signed(x), x == v);
    //@H name=c04_time_0 props=C01,C04,C20 tier=thorough bound="0 default tags" fn=Timed::time_with_tags :: time_with_tags without defaults
    with_tags!(c04_time_0, 0, time_with_tags, Timer, v = kani::any::<u64>(), MetricValue::Unsigned(x), x == v);
    //@H name=c04_gauge_f64_1 props=C01,C04,C20 tier=thorough bound="1 default tag" fn=Gauged<f64>::gauge_with_tags :: gauge_with_tags(f64) with 1 default tag
    with_tags!(c04_gauge_f64_1, 1, gauge_with_tags, Gauge, v = kani::any::<f64>(), MetricValue::Float(x), x.to_bits() == v.to_bits());
    //@H name=c04_hist_f64_3 props=C01,C04,C20 tier=thorough bound="3 default tags" fn=Histogrammed<f64>::histogram_with_tags :: histogram_with_tags(f64) with 3 default tags
    with_tags!(c04_hist_f64_3, 3, histogram_with_tags, Histogram, v = kani::any::<f64>(), MetricValue::Float(x), x.to_bits() == v.to_bits());
    //@H name=c04_dist_f64_1 props=C01,C04,C20 tier=thorough bound="1 default tag" fn=Distributed<f64>::distribution_with_tags :: distribution_with_tags(f64) with 1 default tag
    with_tags!(c04_dist_f64_1, 1, distribution_with_tags, Distribution, v = kani::any::<f64>(), MetricValue::Float(x), x.to_bits() == v.to_bits());

    macro_rules! percall {
        ($name:ident, $n:expr) => {
            #[kani::proof]
            #[kani::unwind(5)]
            fn $name() {
                let client = fixed_client($n);
                let b = client.count_with_tags("the.key", 7i64);
                // the second per-call tag repeats a key already present (a default key when there is one)
                let b = b.with_tag(if $n >= 1 { "k0" } else { "ck" }, "cv").with_tag_value("bare");
                let over: bool = kani::any();
                let b = if over { b.with_container_id("percall") } else { b };
                match b.repr {
                    BuilderRepr::Success(ref f, _) => {
                        assert!(defaults_first(f, &client, 2), "[C04] default tags stay first, in order, when per-call tags are added");
                        let (k1, v1) = f.tags[$n];
                        let (k2, v2) = f.tags[$n + 1];
                        assert!(matches!(k1, Some(k) if k.len() == 2) && same(v1, "cv") && k2.is_none() && same(v2, "bare"), "[C04] per-call tags follow the defaults in the order they were added, also when a key repeats an earlier one (nothing is merged or replaced)");
                        if over {
                            assert!(matches!(f.container_id, Some(c) if same(c, "percall")), "[C04] a per-call container id replaces the default for that call");
                        } else {
                            assert!(match (f.container_id, cid_of(&client)) { (Some(a), Some(b)) => same(a, b), (None, None) => true, _ => false }, "[C04] without a per-call container id the default stays");
                        }
                    }
                    BuilderRepr::Error(..) => assert!(false, "[C03] adding tags never turns a valid metric into an error"),
                }
                // "for that call only": the client's own configuration is untouched
                assert!(tags_of(&client).len() == $n, "[C04] per-call tags do not leak into the client");
                kani::cover!(over, "per-call container id");
                kani::cover!(!over, "default container id");
                std::mem::forget(b);
                std::mem::forget(client);
            }
        };
    }
    //@H name=c04_percall_repeat props=C04,C20 bound="0 default tags + the same per-call tag added twice" fn=MetricBuilder::with_tag,with_tag_value :: a per-call tag added twice is carried twice, in place
    #[kani::proof]
    #[kani::unwind(5)]
    fn c04_percall_repeat() {
        let client = fixed_client(0);
        let b = client.count_with_tags("the.key", 7i64).with_tag("ck", "cv").with_tag("ck", "cv").with_tag_value("bare").with_tag_value("bare");
        match b.repr {
            BuilderRepr::Success(ref f, _) => {
                assert!(f.tags.len() == 4, "[C04] the call's own tags are all carried, in the order they were added, also when one is added more than once");
                let ((k0, v0), (k1, v1), (k2, v2), (k3, v3)) = (f.tags[0], f.tags[1], f.tags[2], f.tags[3]);
                assert!(k0.is_some() && k1.is_some() && same(v0, "cv") && same(v1, "cv") && k2.is_none() && k3.is_none() && same(v2, "bare") && same(v3, "bare"), "[C04] repeated per-call tags stay repeated, in place");
            }
            BuilderRepr::Error(..) => assert!(false, "[C03] adding tags never turns a valid metric into an error"),
        }
        kani::cover!(true, "end");
        std::mem::forget(b);
        std::mem::forget(client);
    }

    //@H name=c04_percall_0 props=C04,C20 bound="0 default tags + 2 per-call tags" fn=MetricBuilder::with_tag,with_tag_value,with_container_id :: per-call tags in order on a client without defaults; per-call container id
    percall!(c04_percall_0, 0);
    //@H name=c04_percall_1 mem=heavy props=C04,C20 tier=thorough bound="1 default tag + 2 per-call tags" fn=MetricBuilder::with_tag,with_tag_value,with_container_id :: per-call tags after 1 default tag; per-call container id replaces the default
    percall!(c04_percall_1, 1);
    //@H name=c04_percall_2 mem=heavy props=C04,C20 tier=thorough bound="2 default tags + 2 per-call tags" fn=MetricBuilder::with_tag,with_tag_value,with_container_id :: per-call tags after 2 default tags
    percall!(c04_percall_2, 2);

    //@H name=c04_duplicate_keys props=C04,C20 bound="3 per-call tags, two with the same key" fn=MetricBuilder::with_tag :: tags are a SEQUENCE: a key that repeats an earlier key is appended, the earlier tag stays
    #[kani::proof]
    #[kani::unwind(5)]
    fn c04_duplicate_keys() {
        let client = fixed_client(0);
        let b = client.count_with_tags("the.key", 7i64).with_tag("env", "a").with_tag("env", "bb").with_tag_value("c");
        match b.repr {
            BuilderRepr::Success(ref f, _) => {
                assert!(f.tags.len() == 3, "[C04] every tag added is carried: a repeated key does not replace the earlier tag");
                let (k0, v0) = f.tags[0]; let (k1, v1) = f.tags[1];
                assert!(k0.is_some() && v0.len() == 1 && k1.is_some() && v1.len() == 2, "[C04] in the order they were added");
            }
            BuilderRepr::Error(..) => assert!(false, "[C03] never rejected"),
        }
        kani::cover!(true, "end");
        std::mem::forget(b);
        std::mem::forget(client);
    }

    //@H name=c04_incr_decr props=C01,C04,C20 bound="2 default tags" fn=CountedExt::incr_with_tags,decr_with_tags :: incr/decr are count_with_tags(key, +1/-1): same decorations
    #[kani::proof]
    #[kani::unwind(5)]
    fn c04_incr_decr() {
        let client = any_client(2);
        let up: bool = kani::any();
        let b = if up { client.incr_with_tags("the.key") } else { client.decr_with_tags("the.key") };
        match b.repr {
            BuilderRepr::Success(ref f, _) => {
                assert!(matches!(f.type_, MetricType::Counter), "[C01] incr/decr are counters");
                assert!(matches!(f.val, MetricValue::Signed(x) if x == if up { 1 } else { -1 }), "[C01,C04] incr sends +1, decr sends -1");
                assert!(defaults_first(f, &client, 0), "[C04] incr/decr carry the default tags in order");
                assert!(f.container_id.is_some() == cid_of(&client).is_some(), "[C04] incr/decr carry the default container id");
            }
            BuilderRepr::Error(..) => assert!(false, "[C03] incr/decr are never rejected"),
        }
        kani::cover!(up, "incr");
        kani::cover!(!up, "decr");
        std::mem::forget(b);
        std::mem::forget(client);
    }

    // ---- the bare call forms (count, incr, decr, time, ...): whatever route they take inside the client, the
    // formatter they hand to MetricFormatter::format carries the client's defaults
    static FMT_CALLS: std::sync::atomic::AtomicUsize = std::sync::atomic::AtomicUsize::new(0);
    static FMT_TAGS: std::sync::atomic::AtomicUsize = std::sync::atomic::AtomicUsize::new(99);
    static FMT_CID: std::sync::atomic::AtomicUsize = std::sync::atomic::AtomicUsize::new(99);
    fn format_recording_stub<'a>(f: &MetricFormatter<'a>) -> String where 'a: 'a {
        use std::sync::atomic::Ordering::SeqCst;
        FMT_CALLS.fetch_add(1, SeqCst);
        FMT_TAGS.store(f.tags.len(), SeqCst);
        FMT_CID.store(f.container_id.is_some() as usize, SeqCst);
        String::from("a")
    }
    macro_rules! bare_form {
        ($name:ident, $n:expr, $c:ident => $call:expr) => {
            #[kani::proof]
            #[kani::unwind(5)]
            #[kani::stub(crate::builder::MetricFormatter::format, format_recording_stub)]
            fn $name() {
                use std::sync::atomic::Ordering::SeqCst;
                let client = any_client($n);
                let $c = &client;
                let r = $call;
                assert!(r.is_ok(), "[C03] a valid value accepted by the sink is Ok");
                assert!(FMT_CALLS.load(SeqCst) == 1, "[C03] one call formats one metric");
                assert!(FMT_TAGS.load(SeqCst) == $n, "[C04] the bare call form carries all default tags (and nothing else)");
                assert!(FMT_CID.load(SeqCst) == cid_of(&client).is_some() as usize, "[C04] the bare call form carries the default container id exactly when one is configured, whether or not default tags exist");
                kani::cover!(cid_of(&client).is_some(), "default container id");
                kani::cover!(cid_of(&client).is_none(), "no container id");
                std::mem::forget(r);
                std::mem::forget(client);
            }
        };
    }
    //@H name=c04_bare_incr_0 props=C04,C20 bound="0 default tags, container id or not" fn=CountedExt::incr :: incr(key) on a client without default tags still carries the default container id
    bare_form!(c04_bare_incr_0, 0, c => c.incr("k"));
    //@H name=c04_bare_decr_0 props=C04,C20 bound="0 default tags, container id or not" fn=CountedExt::decr :: decr(key) likewise
    bare_form!(c04_bare_decr_0, 0, c => c.decr("k"));
    //@H name=c04_bare_incr_2 props=C04,C20 tier=thorough bound="2 default tags" fn=CountedExt::incr :: incr(key) with 2 default tags
    bare_form!(c04_bare_incr_2, 2, c => c.incr("k"));
    //@H name=c04_bare_count_0 props=C04,C20 bound="0 default tags, container id or not" fn=Counted::count :: count(key, v) bare form
    bare_form!(c04_bare_count_0, 0, c => c.count("k", 3i64));
    //@H name=c04_bare_time_0 props=C04,C20 bound="0 default tags, container id or not" fn=Timed::time :: time(key, v) bare form
    bare_form!(c04_bare_time_0, 0, c => c.time("k", 3u64));
    //@H name=c04_bare_gauge_0 props=C04,C20 bound="0 default tags, container id or not" fn=Gauged::gauge :: gauge(key, v) bare form
    bare_form!(c04_bare_gauge_0, 0, c => c.gauge("k", 3u64));
    //@H name=c04_bare_meter_2 props=C04,C20 tier=thorough bound="2 default tags" fn=Metered::meter :: meter(key, v) bare form
    bare_form!(c04_bare_meter_2, 2, c => c.meter("k", 3u64));
    //@H name=c04_bare_hist_0 props=C04,C20 tier=thorough bound="0 default tags, container id or not" fn=Histogrammed::histogram :: histogram(key, v) bare form
    bare_form!(c04_bare_hist_0, 0, c => c.histogram("k", 3u64));
    //@H name=c04_bare_dist_0 props=C04,C20 tier=thorough bound="0 default tags, container id or not" fn=Distributed::distribution :: distribution(key, v) bare form
    bare_form!(c04_bare_dist_0, 0, c => c.distribution("k", 3u64));
    //@H name=c04_bare_set_0 props=C04,C20 tier=thorough bound="0 default tags, container id or not" fn=Setted::set :: set(key, v) bare form
    bare_form!(c04_bare_set_0, 0, c => c.set("k", 3i64));

    //@H name=c04_error_builder props=C03,C04,C20 fn=MetricBuilder::with_tag.. on a rejected value :: decorating a rejected value keeps the error (nothing is formatted)
    #[kani::proof]
    #[kani::unwind(5)]
    fn c04_error_builder() {
        let client = any_client(1);
        let b = client.time_with_tags("k", std::time::Duration::new(u64::MAX, 0));
        let b = b.with_tag("a", "b").with_tag_value("c").with_container_id("d").with_timestamp(1).with_sampling_rate(0.5);
        assert!(matches!(b.repr, BuilderRepr::Error(ref e, c) if e.kind() == crate::types::ErrorKind::InvalidInput && std::ptr::eq(c, &client)),
            "[C03] a rejected value stays an invalid-input error whatever is added to the builder");
        kani::cover!(true, "end");
        std::mem::forget(b);
        std::mem::forget(client);
    }

    //@H name=c04_extensions props=C01,C02,C20 fn=MetricBuilder::with_timestamp,with_sampling_rate :: timestamp and sampling rate are stored exactly as supplied (all u64 / all f64 bit patterns)
    #[kani::proof]
    #[kani::unwind(5)]
    fn c04_extensions() {
        let client = any_client(0);
        let ts: u64 = kani::any();
        let rate: f64 = kani::any();
        let b = client.count_with_tags("k", 1i64).with_timestamp(ts).with_sampling_rate(rate);
        match b.repr {
            BuilderRepr::Success(ref f, _) => {
                assert!(f.timestamp == Some(ts), "[C01] the timestamp supplied is the one rendered");
                assert!(matches!(f.sampling_rate, Some(r) if r.to_bits() == rate.to_bits()), "[C01,C02] the sampling rate supplied is the one rendered, bit-identical");
                assert!(f.tags.is_empty(), "[C04] a client built without defaults adds nothing of its own");
            }
            BuilderRepr::Error(..) => assert!(false, "[C03] never rejected"),
        }
        kani::cover!(true, "end");
        std::mem::forget(b);
        std::mem::forget(client);
    }
}
