//@APPEND cadence/src/types.rs
// C03: contracts of MetricError (construction, kind, source) + a read-only accessor used by the client triples
#[cfg(kani)]
impl MetricError {
    /// the kind of the wrapped io::Error, if this error wraps one (read-only; Kani builds only)
    pub(crate) fn verif_io_kind(&self) -> Option<io::ErrorKind> {
        match self.repr {
            ErrorRepr::IoError(ref e) => Some(e.kind()),
            ErrorRepr::WithDescription(..) => None,
        }
    }
}

#[cfg(kani)]
mod verif_types {
    use super::*;

    fn any_io_kind() -> io::ErrorKind {
        let k: u8 = kani::any();
        match k % 6 { 0 => io::ErrorKind::WouldBlock, 1 => io::ErrorKind::ConnectionRefused, 2 => io::ErrorKind::Interrupted, 3 => io::ErrorKind::BrokenPipe, 4 => io::ErrorKind::InvalidInput, _ => io::ErrorKind::Other }
    }

    macro_rules! from_io {
        ($name:ident, $kind:expr) => {
            #[kani::proof]
            fn $name() {
                let k: io::ErrorKind = $kind;
                let e = MetricError::from(io::Error::from(k));
                assert!(e.kind() == ErrorKind::IoError, "[C03] an error converted from the sink's io::Error has kind IoError, whatever the io::ErrorKind");
                assert!(e.verif_io_kind() == Some(k), "[C03] the wrapped error is the one given");
                let inner: *const u8 = match e.repr { ErrorRepr::IoError(ref x) => x as *const io::Error as *const u8, _ => std::ptr::null() };
                match error::Error::source(&e) {
                    Some(s) => assert!(s as *const (dyn error::Error + 'static) as *const u8 == inner, "[C03] source() is the wrapped io::Error itself"),
                    None => assert!(false, "[C03] an I/O-kind error has a source"),
                }
                kani::cover!(true, "end");
                std::mem::forget(e);
            }
        };
    }
    //@H name=c03_error_from_io_wouldblock props=C03 fn=MetricError::from(io::Error),kind,source :: io::Error(WouldBlock) => I/O-kind error wrapping exactly that error, exposed as its source
    from_io!(c03_error_from_io_wouldblock, io::ErrorKind::WouldBlock);
    //@H name=c03_error_from_io_interrupted props=C03 fn=MetricError::from(io::Error),kind,source :: io::Error(Interrupted) => I/O-kind error wrapping exactly that error
    from_io!(c03_error_from_io_interrupted, io::ErrorKind::Interrupted);
    //@H name=c03_error_from_io_invalidinput props=C03 fn=MetricError::from(io::Error),kind,source :: io::Error(InvalidInput) => still an I/O-kind error (the io kind must not leak into the metric error kind)
    from_io!(c03_error_from_io_invalidinput, io::ErrorKind::InvalidInput);
    //@H name=c03_error_from_io_other props=C03 fn=MetricError::from(io::Error),kind,source :: io::Error(Other) => I/O-kind error wrapping exactly that error
    from_io!(c03_error_from_io_other, io::ErrorKind::Other);

    //@H name=c03_error_from_desc props=C03 fn=MetricError::from((ErrorKind,&str)),kind,source :: an error built from (kind, description) reports that kind and has no source
    #[kani::proof]
    fn c03_error_from_desc() {
        let kind = if kani::any() { ErrorKind::InvalidInput } else { ErrorKind::IoError };
        let e = MetricError::from((kind, "desc"));
        assert!(e.kind() == kind, "[C03] the kind given is the kind reported");
        assert!(e.verif_io_kind().is_none() && error::Error::source(&e).is_none(), "[C03] a described error wraps no io::Error");
        kani::cover!(true, "end");
        std::mem::forget(e);
    }
}
