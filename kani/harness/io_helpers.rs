//@APPEND cadence/src/io.rs
// read-only accessors for the sink harnesses (Kani builds only; adds no behaviour)
#[cfg(kani)]
impl<T> MultiLineWriter<T>
where
    T: Write,
{
    pub(crate) fn verif_capacity(&self) -> usize { self.capacity }
    pub(crate) fn verif_written(&self) -> usize { self.written }
    pub(crate) fn verif_ending(&self) -> &[u8] { &self.line_ending }
    pub(crate) fn verif_inner(&self) -> &T { self.inner.get_ref() }
    pub(crate) fn verif_buffered(&self) -> &[u8] { self.inner.buffer() }
}
