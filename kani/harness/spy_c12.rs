//@APPEND cadence/src/sinks/spy.rs
// C12 (+C06 delegation): the buffered spy sink is one MultiLineWriter behind one mutex; emit/flush are
// exactly one writer.write/flush performed while the lock is held; a contended lock can never make a
// flush or an emit report success without having done its work. The real MultiLineWriter and the real
// std::io::BufWriter are underneath; only the channel adapter's write is a recording stub.
#[cfg(kani)]
mod verif_spy {
    use super::*;
    use std::sync::atomic::{AtomicUsize, Ordering};
    use std::sync::{LockResult, MutexGuard, TryLockError, TryLockResult};

    static CALLS: AtomicUsize = AtomicUsize::new(0);
    static LEN: AtomicUsize = AtomicUsize::new(0);
    static FIRST: AtomicUsize = AtomicUsize::new(0);
    static LAST: AtomicUsize = AtomicUsize::new(0);
    static LOCK_HELD_DURING_WRITE: AtomicUsize = AtomicUsize::new(0);
    static UNLOCKED_WRITES: AtomicUsize = AtomicUsize::new(0);
    static mut SINK: Option<&'static BufferedSpyMetricSink> = None;

    /// recording stand-in for the channel adapter: notes what it is given and whether the sink's
    /// mutex is held at that moment
    fn adapter_write_stub(_w: &mut WriteAdapter, buf: &[u8]) -> io::Result<usize> {
        CALLS.fetch_add(1, Ordering::SeqCst);
        LEN.store(buf.len(), Ordering::SeqCst);
        if !buf.is_empty() { FIRST.store(buf[0] as usize, Ordering::SeqCst); LAST.store(buf[buf.len() - 1] as usize, Ordering::SeqCst); }
        if let Some(s) = unsafe { SINK } {
            match s.writer.try_lock() {
                Err(TryLockError::WouldBlock) => { LOCK_HELD_DURING_WRITE.fetch_add(1, Ordering::SeqCst); }
                _ => { UNLOCKED_WRITES.fetch_add(1, Ordering::SeqCst); }
            }
        }
        Ok(buf.len())
    }

    /// interference: another thread may hold the lock whenever a try_lock is attempted
    fn try_lock_contended<T>(_m: &Mutex<T>) -> TryLockResult<MutexGuard<'_, T>> {
        Err(TryLockError::WouldBlock)
    }

    fn sink(cap: usize) -> &'static BufferedSpyMetricSink {
        let (rx, s) = BufferedSpyMetricSink::with_capacity(None, Some(cap));
        std::mem::forget(rx);
        let s: &'static BufferedSpyMetricSink = Box::leak(Box::new(s));
        unsafe { SINK = Some(s); }
        s
    }
    // the metric text starts and (at full length) ends with a blank: a sink hands the metric over as it is,
    // it does not trim or otherwise normalise it
    static BYTES: [u8; 3] = [b' ', b'b', b' '];
    fn any_metric() -> (&'static str, usize) {
        let n: usize = kani::any();
        kani::assume(n >= 1 && n <= 3);
        (unsafe { std::str::from_utf8_unchecked(&BYTES[..n]) }, n)
    }

    //@H name=c12_spy_emit_flush_quick props=C06,C12,C13,C20 bound="capacity 8, metric 1..=3 bytes" fn=BufferedSpyMetricSink::emit,flush :: emit == one write of the whole metric into the line writer (buffered); flush == one writer.flush: ONE datagram metric+newline; a second flush writes nothing
    #[kani::proof]
    #[kani::unwind(8)]
    #[kani::stub(<WriteAdapter as std::io::Write>::write, adapter_write_stub)]
    fn c12_spy_emit_flush_quick() {
        let (rx, s) = BufferedSpyMetricSink::with_capacity(None, Some(8));
        let (m, n) = any_metric();
        let r = s.emit(m);
        assert!(matches!(r, Ok(k) if k == n), "[C06,C12] emit returns the metric's byte length");
        assert!(CALLS.load(Ordering::SeqCst) == 0, "[C19] a metric that fits is buffered, nothing is sent");
        assert!(s.flush().is_ok(), "[C06] flush succeeds when the socket accepts");
        assert!(CALLS.load(Ordering::SeqCst) == 1 && LEN.load(Ordering::SeqCst) == n + 1, "[C06,C12] flush hands the whole line (metric + newline) to the socket in ONE write");
        assert!(FIRST.load(Ordering::SeqCst) == b' ' as usize && LAST.load(Ordering::SeqCst) == b'\n' as usize, "[C05,C13] the datagram is the metric, byte for byte (leading and trailing blanks included), followed by a single newline");
        assert!(s.flush().is_ok() && CALLS.load(Ordering::SeqCst) == 1, "[C06] flushing again writes nothing");
        kani::cover!(n == 3, "3-byte metric");
        std::mem::forget(r); std::mem::forget(rx); std::mem::forget(s);
    }

    //@H name=c12_spy_emit_flush mem=heavy props=C06,C12,C13,C20 tier=thorough bound="capacity 8, metric 1..=3 bytes" fn=BufferedSpyMetricSink::emit,flush :: emit == one write of the whole metric into the line writer (buffered, lock released afterwards); flush == one writer.flush: one datagram metric+newline, handed over while the sink's lock is held
    #[kani::proof]
    #[kani::unwind(8)]
    #[kani::stub(<WriteAdapter as std::io::Write>::write, adapter_write_stub)]
    fn c12_spy_emit_flush() {
        let s = sink(8);
        let (m, n) = any_metric();
        let r = s.emit(m);
        assert!(matches!(r, Ok(k) if k == n), "[C06,C12] emit returns the metric's byte length");
        assert!(CALLS.load(Ordering::SeqCst) == 0, "[C19] a metric that fits is buffered, nothing is sent");
        assert!(s.writer.try_lock().is_ok(), "[C12] the sink's lock is released when emit returns");
        assert!(s.flush().is_ok(), "[C06] flush succeeds when the socket accepts");
        assert!(CALLS.load(Ordering::SeqCst) == 1 && LEN.load(Ordering::SeqCst) == n + 1, "[C06,C12] flush hands the whole line (metric + newline) to the socket in ONE write");
        assert!(FIRST.load(Ordering::SeqCst) == b' ' as usize && LAST.load(Ordering::SeqCst) == b'\n' as usize, "[C05,C13] the datagram is the metric, byte for byte (leading and trailing blanks included), followed by a single newline");
        assert!(LOCK_HELD_DURING_WRITE.load(Ordering::SeqCst) == 1 && UNLOCKED_WRITES.load(Ordering::SeqCst) == 0, "[C12] the socket is only written while the sink's lock is held (whole write/flush calls are serialised)");
        assert!(s.writer.try_lock().is_ok(), "[C12] the sink's lock is released when flush returns");
        assert!(s.flush().is_ok() && CALLS.load(Ordering::SeqCst) == 1, "[C06] flushing again writes nothing");
        kani::cover!(n == 3, "3-byte metric");
        std::mem::forget(r);
    }

    //@H name=c12_spy_overflow_under_lock mem=heavy props=C05,C12,C20 tier=thorough bound="capacity 4, two 3-byte metrics" fn=BufferedSpyMetricSink::emit :: an emit that does not fit flushes the old buffer first, as one whole line, while holding the lock
    #[kani::proof]
    #[kani::unwind(8)]
    #[kani::stub(<WriteAdapter as std::io::Write>::write, adapter_write_stub)]
    fn c12_spy_overflow_under_lock() {
        let s = sink(4);
        assert!(matches!(s.emit("abc"), Ok(3)));
        assert!(CALLS.load(Ordering::SeqCst) == 0);
        assert!(matches!(s.emit("abd"), Ok(3)), "[C06] the second metric is accepted");
        assert!(CALLS.load(Ordering::SeqCst) == 1 && LEN.load(Ordering::SeqCst) == 4 && LAST.load(Ordering::SeqCst) == b'\n' as usize, "[C05,C12] the first line leaves whole (metric + newline), alone, before the second is buffered");
        assert!(LOCK_HELD_DURING_WRITE.load(Ordering::SeqCst) == 1 && UNLOCKED_WRITES.load(Ordering::SeqCst) == 0, "[C12] the socket is only written while the sink's lock is held");
        kani::cover!(true, "end");
    }

    //@H name=c12_spy_flush_contended props=C06,C12,C20 bound="capacity 8, 1 buffered metric" fn=BufferedSpyMetricSink::flush :: whatever other threads do with the lock, flush never reports success while the metrics acknowledged before it are still buffered (a non-blocking lock attempt is modelled as contended)
    #[kani::proof]
    #[kani::unwind(8)]
    #[kani::stub(<WriteAdapter as std::io::Write>::write, adapter_write_stub)]
    #[kani::stub(std::sync::Mutex::try_lock, try_lock_contended)]
    fn c12_spy_flush_contended() {
        let s = sink(8);
        let r = s.emit("ab");
        if r.is_ok() {
            let f = s.flush();
            assert!(f.is_err() || CALLS.load(Ordering::SeqCst) == 1, "[C06,C12] flush returned Ok => every metric acknowledged before it has been handed to the socket, even under lock contention");
            std::mem::forget(f);
        }
        kani::cover!(r.is_ok(), "emit accepted");
        std::mem::forget(r);
    }

    //@H name=c12_spy_emit_contended props=C06,C12,C20 bound="capacity 8" fn=BufferedSpyMetricSink::emit :: under lock contention an emit either fails or really buffers/sends its metric: Ok is never returned for a metric that was dropped
    #[kani::proof]
    #[kani::unwind(8)]
    #[kani::stub(<WriteAdapter as std::io::Write>::write, adapter_write_stub)]
    #[kani::stub(std::sync::Mutex::try_lock, try_lock_contended)]
    fn c12_spy_emit_contended() {
        let s = sink(8);
        let r = s.emit("ab");
        if r.is_ok() {
            let w = s.writer.lock().unwrap();
            assert!(w.verif_written() == 3 && w.verif_buffered().len() == 3, "[C06,C12] an acknowledged metric is in the buffer (or on the wire), whole, with its newline");
            std::mem::forget(w);
        }
        kani::cover!(r.is_ok(), "emit accepted");
        std::mem::forget(r);
    }

    //@H name=c12_spy_ctor props=C05,C13,C19 bound="capacity 0..=64 or 1000000" fn=BufferedSpyMetricSink::with_capacity,new :: constructor: given capacity (512 when none), single newline terminator
    #[kani::proof]
    #[kani::unwind(8)]
    fn c12_spy_ctor() {
        let cap: Option<usize> = if kani::any() { None } else if kani::any() { Some(1_000_000) } else { let c: usize = kani::any(); kani::assume(c <= 64); Some(c) };
        let (rx, s) = BufferedSpyMetricSink::with_capacity(None, cap);
        {
            let w = s.writer.lock().unwrap();
            assert!(w.verif_capacity() == cap.unwrap_or(512), "[C05,C19] capacity is the configured one whatever its size, 512 bytes when none is given");
            assert!(w.verif_ending().len() == 1 && w.verif_ending()[0] == b'\n', "[C13] the terminator is a single newline");
            std::mem::forget(w);
        }
        kani::cover!(cap.is_none(), "default");
        std::mem::forget(rx); std::mem::forget(s);
    }
}
