use cadence::prelude::*;
use cadence::{Metric, SpyMetricSink, StatsdClient};
fn main() {
    let (rx, sink) = SpyMetricSink::new();
    let client = StatsdClient::from_sink("p", sink);
    let r = client.histogram("k", Vec::<u64>::new());
    println!("result: {:?}", r.as_ref().map(|m| m.as_metric_str().to_string()).map_err(|e| e.kind()));
    println!("sink saw: {:?}", rx.try_recv().map(|v| String::from_utf8(v).unwrap()));
}
