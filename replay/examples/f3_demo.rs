use cadence::{MetricSink, QueuingMetricSink};
use std::sync::atomic::{AtomicBool, AtomicUsize, Ordering};
use std::sync::Arc;
use std::time::{Duration, Instant};
struct Gated { gate: Arc<AtomicBool>, seen: Arc<AtomicUsize>, dropped: Arc<AtomicBool> }
impl MetricSink for Gated {
    fn emit(&self, m: &str) -> std::io::Result<usize> {
        while !self.gate.load(Ordering::SeqCst) { std::thread::sleep(Duration::from_millis(1)); }
        self.seen.fetch_add(1, Ordering::SeqCst);
        Ok(m.len())
    }
}
impl Drop for Gated { fn drop(&mut self) { self.dropped.store(true, Ordering::SeqCst); } }
fn main() {
    let gate = Arc::new(AtomicBool::new(false));
    let seen = Arc::new(AtomicUsize::new(0));
    let dropped = Arc::new(AtomicBool::new(false));
    let q = QueuingMetricSink::with_capacity(Gated { gate: gate.clone(), seen: seen.clone(), dropped: dropped.clone() }, 2);
    q.emit("a:1|c").unwrap();                       // taken by the worker, blocked in the gate
    std::thread::sleep(Duration::from_millis(100));
    q.emit("b:1|c").unwrap();
    q.emit("c:1|c").unwrap();                       // queue now full (2 of 2)
    assert!(q.emit("d:1|c").is_err());
    drop(q);                                        // last handle: stop marker cannot be enqueued
    gate.store(true, Ordering::SeqCst);
    let t0 = Instant::now();
    while t0.elapsed() < Duration::from_secs(2) && !dropped.load(Ordering::SeqCst) { std::thread::sleep(Duration::from_millis(10)); }
    println!("delivered={} wrapped sink dropped within 2s of the last handle drop: {}", seen.load(Ordering::SeqCst), dropped.load(Ordering::SeqCst));
}
