// probe: does the last drop of a capacity-0 queuing sink always release the wrapped sink?
use cadence::{MetricSink, QueuingMetricSink};
use std::io;
use std::sync::mpsc::{channel, Sender};
use std::sync::Mutex;
use std::time::Duration;

struct S(Mutex<Sender<()>>);
impl MetricSink for S { fn emit(&self, m: &str) -> io::Result<usize> { Ok(m.len()) } }
impl Drop for S { fn drop(&mut self) { let _ = self.0.lock().unwrap().send(()); } }

fn main() {
    let n: usize = std::env::args().nth(1).and_then(|x| x.parse().ok()).unwrap_or(20000);
    let spin: usize = std::env::args().nth(2).and_then(|x| x.parse().ok()).unwrap_or(0);
    let cap: usize = std::env::args().nth(3).and_then(|x| x.parse().ok()).unwrap_or(0);
    let mut hung = 0;
    for i in 0..n {
        let (tx, rx) = channel();
        let q = QueuingMetricSink::with_capacity(S(Mutex::new(tx)), cap);
        // vary the moment of the drop relative to the start of the worker thread
        for _ in 0..((i * 7) % (spin + 1)) { std::hint::spin_loop(); }
        drop(q);
        if rx.recv_timeout(Duration::from_millis(2000)).is_err() { hung += 1; }
    }
    println!("{} of {} sinks (capacity from argv[3]) never released their wrapped sink", hung, n);
}
