use cadence::{MetricSink, QueuingMetricSink, SpyMetricSink};
use std::time::{Duration, Instant};
fn main() {
    let (rx, spy) = SpyMetricSink::new();
    let q = QueuingMetricSink::from(spy);
    let c = q.clone();
    drop(c); // dropping ANY clone stops the shared worker
    std::thread::sleep(Duration::from_millis(100));
    let r = q.emit("a:1|c");
    let t0 = Instant::now();
    let mut got = None;
    while t0.elapsed() < Duration::from_secs(2) {
        if let Ok(v) = rx.try_recv() { got = Some(String::from_utf8(v).unwrap()); break; }
        std::thread::sleep(Duration::from_millis(10));
    }
    println!("emit on the live original handle: {:?}; delivered within 2s: {:?}; queued={} drained={}", r.map_err(|e| e.to_string()), got, q.queued(), q.drained());
}
