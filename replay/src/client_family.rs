//! Family "client": consecutive metric calls on one real client over a scripted sink (C03).
//! case syntax: calls=<entry><form><validity>,...;script=<k,k,...>
//!   entry: c count(i64) | t time(Duration) | g gauge(f64) | h histogram(Vec<u64>) | s set(i64)
//!   form:  p plain | t tagged+try_send | q tagged+quiet send
//!   validity: v valid value | i rejected value (overflowing Duration / empty list; others are always valid)
//!   script: outcome of the sink for its k-th call: 0 accept, n>0 refuse with kind KINDS[n-1]
use crate::rng::Rng;
use cadence::prelude::*;
use cadence::{ErrorKind, Metric, MetricError, MetricSink, StatsdClient};
use std::error::Error;
use std::io;
use std::sync::{Arc, Mutex};
use std::time::Duration;

const KINDS: [io::ErrorKind; 6] = [io::ErrorKind::WouldBlock, io::ErrorKind::ConnectionRefused, io::ErrorKind::Interrupted, io::ErrorKind::BrokenPipe, io::ErrorKind::Other, io::ErrorKind::InvalidInput];

struct Scripted { log: Arc<Mutex<Vec<String>>>, script: Vec<usize> }
impl MetricSink for Scripted {
    fn emit(&self, m: &str) -> io::Result<usize> {
        let mut l = self.log.lock().unwrap();
        let k = l.len();
        l.push(m.to_string());
        match self.script.get(k).copied().unwrap_or(0) { 0 => Ok(m.len()), n => Err(io::Error::new(KINDS[(n - 1) % 6], "scripted refusal")) }
    }
}

pub fn run_case(s: &str) -> Result<Vec<(String, String)>, String> {
    let mut calls: Vec<(char, char, char)> = vec![];
    let mut script: Vec<usize> = vec![];
    for kv in s.split(';') {
        let mut it = kv.splitn(2, '=');
        let (k, v) = (it.next().unwrap_or(""), it.next().unwrap_or(""));
        match k {
            "calls" => for c in v.split(',').filter(|x| !x.is_empty()) { let ch: Vec<char> = c.chars().collect(); if ch.len() != 3 { return Err("call".into()); } calls.push((ch[0], ch[1], ch[2])); },
            "script" => script = v.split(',').filter(|x| !x.is_empty()).map(|x| x.parse().unwrap_or(0)).collect(),
            "" => {}
            _ => return Err(format!("bad key {}", k)),
        }
    }
    Ok(check(&calls, &script))
}

fn io_kind_of(e: &MetricError) -> Option<io::ErrorKind> { e.source().and_then(|s| s.downcast_ref::<io::Error>()).map(|x| x.kind()) }

pub fn check(calls: &[(char, char, char)], script: &[usize]) -> Vec<(String, String)> {
    let mut fails = vec![];
    let log = Arc::new(Mutex::new(vec![]));
    let errs: Arc<Mutex<Vec<(ErrorKind, Option<io::ErrorKind>)>>> = Arc::new(Mutex::new(vec![]));
    let e2 = errs.clone();
    let client = StatsdClient::builder("p", Scripted { log: log.clone(), script: script.to_vec() })
        .with_error_handler(move |e: MetricError| e2.lock().unwrap().push((e.kind(), io_kind_of(&e))))
        .build();
    for (i, (entry, form, validity)) in calls.iter().enumerate() {
        let invalid = *validity == 'i' && (*entry == 't' || *entry == 'h');
        let sink_before = log.lock().unwrap().len();
        let errs_before = errs.lock().unwrap().len();
        let outcome = script.get(sink_before).copied().unwrap_or(0);
        macro_rules! go { ($plain:expr, $tagged:expr) => { match form {
            'p' => Some($plain.map(|m| m.as_metric_str().to_string())),
            't' => Some($tagged.with_tag("a", "b").try_send().map(|m| m.as_metric_str().to_string())),
            _ => { $tagged.with_tag("a", "b").send(); None }
        } } }
        let res: Option<Result<String, MetricError>> = match entry {
            'c' => go!(client.count("k", -3i64), client.count_with_tags("k", -3i64)),
            't' => { let d = if invalid { Duration::new(u64::MAX, 0) } else { Duration::from_millis(1500) }; go!(client.time("k", d), client.time_with_tags("k", d)) }
            'g' => go!(client.gauge("k", 0.5f64), client.gauge_with_tags("k", 0.5f64)),
            'h' => { let v: Vec<u64> = if invalid { vec![] } else { vec![1, 2] }; go!(client.histogram("k", v.clone()), client.histogram_with_tags("k", v)) }
            _ => go!(client.set("k", 9i64), client.set_with_tags("k", 9i64)),
        };
        let sent: Vec<String> = log.lock().unwrap()[sink_before..].to_vec();
        let new_errs: Vec<(ErrorKind, Option<io::ErrorKind>)> = errs.lock().unwrap()[errs_before..].to_vec();
        let who = format!("call {} ({}{}{})", i, entry, form, validity);
        if invalid {
            if !sent.is_empty() { fails.push(("C03".to_string(), format!("{}: rejected value but the sink was handed {:?}", who, sent))); }
        } else if sent.len() != 1 {
            fails.push(("C03".to_string(), format!("{}: one call must hand the sink exactly one string, it was handed {:?} (sink outcome script {:?})", who, sent, script)));
        }
        match res {
            Some(Ok(text)) => {
                if invalid { fails.push(("C03".to_string(), format!("{}: rejected value returned Ok", who))); }
                else if outcome != 0 { fails.push(("C03".to_string(), format!("{}: the sink refused ({:?}) during this call but Ok was returned", who, KINDS[(outcome - 1) % 6]))); }
                else if sent.last() != Some(&text) { fails.push(("C03".to_string(), format!("{}: returned metric {:?} is not the text the sink accepted {:?}", who, text, sent))); }
            }
            Some(Err(e)) => {
                if invalid { if e.kind() != ErrorKind::InvalidInput { fails.push(("C03".to_string(), format!("{}: rejected value reported as {:?}", who, e.kind()))); } }
                else if outcome == 0 { fails.push(("C03".to_string(), format!("{}: the sink accepted but an error ({:?}) was returned", who, e.kind()))); }
                else if e.kind() != ErrorKind::IoError || io_kind_of(&e) != Some(KINDS[(outcome - 1) % 6]) { fails.push(("C03".to_string(), format!("{}: sink refused with {:?} but the error is {:?} carrying {:?}", who, KINDS[(outcome - 1) % 6], e.kind(), io_kind_of(&e)))); }
                if !new_errs.is_empty() { fails.push(("C03".to_string(), format!("{}: error handler invoked by a non-quiet call", who))); }
            }
            None => {
                let expect = if invalid { Some((ErrorKind::InvalidInput, None)) } else if outcome != 0 { Some((ErrorKind::IoError, Some(KINDS[(outcome - 1) % 6]))) } else { None };
                match (expect, new_errs.as_slice()) {
                    (None, []) => {}
                    (Some(x), [y]) if x == *y => {}
                    (x, y) => fails.push(("C03".to_string(), format!("{}: quiet send: handler invocations {:?}, expected {:?}", who, y, x))),
                }
            }
        }
    }
    fails
}

pub fn search(prop: &str, seed: u64, budget: u64) -> Option<(String, Vec<(String, String)>)> {
    let mut rng = Rng::new(seed);
    for _ in 0..budget.min(30000) {
        let n = 1 + rng.below(4) as usize;
        let calls: Vec<(char, char, char)> = (0..n).map(|_| (['c', 't', 'g', 'h', 's'][rng.below(5) as usize], ['p', 't', 'q'][rng.below(3) as usize], ['v', 'v', 'i'][rng.below(3) as usize])).collect();
        let script: Vec<usize> = (0..6).map(|_| if rng.below(2) == 0 { 0 } else { 1 + rng.below(6) as usize }).collect();
        let fails = check(&calls, &script);
        if fails.iter().any(|(p, _)| p == prop) {
            let case = format!("calls={};script={}", calls.iter().map(|(a, b, c)| format!("{}{}{}", a, b, c)).collect::<Vec<_>>().join(","), script.iter().map(|x| x.to_string()).collect::<Vec<_>>().join(","));
            return Some((case, fails.into_iter().filter(|(p, _)| p == prop).collect()));
        }
    }
    None
}
