//! Family "queue": histories on a real QueuingMetricSink (real threads, real crossbeam) around a gated
//! wrapped sink. case syntax:  cap=<n|u>;ops=<op,op,...>;out=<o|e|p,...>
//!   ops: e<h> emit on handle h | z<h> emit a zero-length metric on handle h | c<h> clone handle h | d<h> drop handle h | r let the wrapped sink finish one metric
//!   out: outcome of the wrapped sink for the k-th metric it is handed: o = Ok, z = Ok(0), e = Err(TimedOut), i = Err(Interrupted), p = panic
//! At the end every remaining gate is opened, every handle dropped, and the wrapped sink must be dropped.
use crate::rng::Rng;
use cadence::{MetricSink, QueuingMetricSink};
use std::io;
use std::panic::RefUnwindSafe;
use std::sync::atomic::{AtomicUsize, Ordering};
use std::sync::mpsc::{channel, Receiver, Sender};
use std::sync::{Arc, Mutex};
use std::time::Duration;

struct Gated {
    entered: Mutex<Sender<String>>,
    gate: Mutex<Receiver<()>>,
    outs: Vec<char>,
    idx: AtomicUsize,
    dropped: Mutex<Sender<()>>,
}
impl RefUnwindSafe for Gated {}
impl MetricSink for Gated {
    fn emit(&self, m: &str) -> io::Result<usize> {
        let k = self.idx.fetch_add(1, Ordering::SeqCst);
        let _ = self.entered.lock().unwrap_or_else(|e| e.into_inner()).send(m.to_string());
        let _ = self.gate.lock().unwrap_or_else(|e| e.into_inner()).recv_timeout(Duration::from_secs(20));
        match self.outs.get(k).copied().unwrap_or('o') {
            'p' => panic!("scripted panic"),
            'e' => Err(io::Error::new(io::ErrorKind::TimedOut, format!("scripted error {}", k))),
            'i' => Err(io::Error::new(io::ErrorKind::Interrupted, format!("scripted error {}", k))),
            'z' => Ok(0),
            _ => Ok(m.len()),
        }
    }
}
impl Drop for Gated {
    fn drop(&mut self) { let _ = self.dropped.lock().unwrap_or_else(|e| e.into_inner()).send(()); }
}

#[derive(Clone, Debug)]
pub struct Case { cap: Option<usize>, ops: Vec<(char, usize)>, outs: Vec<char> }
impl Case {
    pub fn parse(s: &str) -> Result<Case, String> {
        let mut c = Case { cap: None, ops: vec![], outs: vec![] };
        for kv in s.split(';') {
            let mut it = kv.splitn(2, '=');
            let (k, v) = (it.next().unwrap_or(""), it.next().unwrap_or(""));
            match k {
                "cap" => c.cap = if v == "u" { None } else { Some(v.parse().map_err(|_| "cap")?) },
                "ops" => for o in v.split(',').filter(|x| !x.is_empty()) {
                    let ch = o.chars().next().unwrap();
                    let n = if o.len() > 1 { o[1..].parse().map_err(|_| "op index")? } else { 0 };
                    c.ops.push((ch, n));
                },
                "out" => c.outs = v.split(',').filter(|x| !x.is_empty()).map(|x| x.chars().next().unwrap()).collect(),
                "" => {}
                _ => return Err(format!("bad key {}", k)),
            }
        }
        Ok(c)
    }
    pub fn to_string(&self) -> String {
        format!("cap={};ops={};out={}", self.cap.map(|c| c.to_string()).unwrap_or("u".into()),
            self.ops.iter().map(|(c, n)| if *c == 'r' { "r".to_string() } else { format!("{}{}", c, n) }).collect::<Vec<_>>().join(","),
            self.outs.iter().map(|c| c.to_string()).collect::<Vec<_>>().join(","))
    }
}

pub fn run_case(s: &str) -> Result<Vec<(String, String)>, String> {
    if s.starts_with("race=") { return Ok(race_probe(s)); }
    if s.starts_with("par=") { return Ok(par_probe(s)); }
    Ok(check(&Case::parse(s)?))
}

/// case `race=<n>;spin=<k>;cap=<c>`: n rounds of "build a queuing sink of capacity c around a sink
/// that reports its own drop, wait a varying number of spins, drop the only handle". The drop of the
/// last handle must always end the background thread and release the wrapped sink (C09), whatever the
/// moment of the drop relative to the start of the thread. A schedule-dependent check: it can only
/// miss a defect, never invent one (a round fails only if the wrapped sink is still alive after 2 s).
/// case `par=<rounds>;threads=<k>;cap=<c|u>`: k producer threads, released together by a barrier, each
/// emit three metrics through their own clone of one queuing sink, starting with the very first emits
/// on that sink. Oracle (C08, and C12 for the wiring client -> queuing sink -> buffered sink): the
/// wrapped sink is only ever run by ONE thread at a time, every accepted metric is handed over exactly
/// once, and each producer's metrics are handed over in that producer's program order.
fn par_probe(s: &str) -> Vec<(String, String)> {
    use std::sync::atomic::AtomicUsize as AU;
    use std::sync::Barrier;
    let mut rounds = 20usize; let mut k = 4usize; let mut cap: Option<usize> = None;
    for kv in s.split(';') {
        let mut it = kv.splitn(2, '=');
        let (key, v) = (it.next().unwrap_or(""), it.next().unwrap_or(""));
        match key { "par" => rounds = v.parse().unwrap_or(rounds), "threads" => k = v.parse().unwrap_or(k), "cap" => cap = if v == "u" { None } else { v.parse().ok() }, _ => {} }
    }
    struct P { inside: AU, max_inside: AU, seen: Mutex<Vec<String>>, dropped: Mutex<Sender<()>> }
    impl RefUnwindSafe for P {}
    impl MetricSink for P {
        fn emit(&self, m: &str) -> io::Result<usize> {
            let cur = self.inside.fetch_add(1, Ordering::SeqCst) + 1;
            self.max_inside.fetch_max(cur, Ordering::SeqCst);
            self.seen.lock().unwrap().push(m.to_string());
            std::thread::sleep(Duration::from_millis(2));
            self.inside.fetch_sub(1, Ordering::SeqCst);
            Ok(m.len())
        }
    }
    struct PW(Arc<P>);
    impl MetricSink for PW { fn emit(&self, m: &str) -> io::Result<usize> { self.0.emit(m) } }
    impl Drop for PW { fn drop(&mut self) { let _ = self.0.dropped.lock().unwrap().send(()); } }
    for round in 0..rounds {
        let (dtx, drx) = channel();
        let p = Arc::new(P { inside: AU::new(0), max_inside: AU::new(0), seen: Mutex::new(vec![]), dropped: Mutex::new(dtx) });
        let q = match cap { Some(c) => QueuingMetricSink::with_capacity(PW(p.clone()), c), None => QueuingMetricSink::from(PW(p.clone())) };
        let barrier = Arc::new(Barrier::new(k));
        let mut hs = vec![];
        for t in 0..k {
            let (qc, b) = (q.clone(), barrier.clone());
            hs.push(std::thread::spawn(move || {
                b.wait();
                let mut acc = vec![];
                for j in 0..3 { let m = format!("t{}.{}:1|c", t, j); if qc.emit(&m).is_ok() { acc.push(m); } }
                acc
            }));
        }
        let accepted: Vec<Vec<String>> = hs.into_iter().map(|h| h.join().unwrap_or_default()).collect();
        drop(q);
        let released = drx.recv_timeout(Duration::from_secs(10)).is_ok();
        let seen = p.seen.lock().unwrap().clone();
        let mut fails = vec![];
        let mx = p.max_inside.load(Ordering::SeqCst);
        if mx > 1 { fails.push(format!("round {}: {} threads were inside the wrapped sink at the same time (the queue must have a single consumer)", round, mx)); }
        for (t, acc) in accepted.iter().enumerate() {
            let mine: Vec<&String> = seen.iter().filter(|m| m.starts_with(&format!("t{}.", t))).collect();
            if mine.len() != acc.len() || mine.iter().zip(acc.iter()).any(|(a, b)| *a != b) {
                fails.push(format!("round {}: producer {} had {:?} accepted in this order but the wrapped sink was handed {:?}", round, t, acc, mine));
            }
        }
        if !released { fails.push(format!("round {}: the wrapped sink was not released within 10 s of the last drop", round)); }
        if !fails.is_empty() {
            let msg = fails.join("; ");
            let mut out = vec![("C08".to_string(), msg.clone()), ("C12".to_string(), msg.clone())];
            if !released { out.push(("C09".to_string(), msg)); }
            return out;
        }
    }
    vec![]
}

fn race_probe(s: &str) -> Vec<(String, String)> {
    let mut n = 2000usize; let mut spin = 3000usize; let mut cap: Option<usize> = Some(0);
    for kv in s.split(';') {
        let mut it = kv.splitn(2, '=');
        let (k, v) = (it.next().unwrap_or(""), it.next().unwrap_or(""));
        match k { "race" => n = v.parse().unwrap_or(n), "spin" => spin = v.parse().unwrap_or(spin), "cap" => cap = if v == "u" { None } else { v.parse().ok() }, _ => {} }
    }
    struct D(Mutex<Sender<()>>);
    impl MetricSink for D { fn emit(&self, m: &str) -> io::Result<usize> { Ok(m.len()) } }
    impl Drop for D { fn drop(&mut self) { let _ = self.0.lock().unwrap_or_else(|e| e.into_inner()).send(()); } }
    let mut hung = 0usize;
    for i in 0..n {
        let (tx, rx) = channel();
        let q = match cap { Some(c) => QueuingMetricSink::with_capacity(D(Mutex::new(tx)), c), None => QueuingMetricSink::from(D(Mutex::new(tx))) };
        for _ in 0..((i * 7) % (spin + 1)) { std::hint::spin_loop(); }
        drop(q);
        if rx.recv_timeout(Duration::from_secs(2)).is_err() { hung += 1; if hung >= 3 { break; } }
    }
    if hung > 0 { vec![("C09".into(), format!("capacity {:?}: after the last handle was dropped the wrapped sink was still alive 2 s later in {} round(s): the background thread did not terminate", cap, hung))] } else { vec![] }
}

pub fn check(c: &Case) -> Vec<(String, String)> {
    let prev_hook = std::panic::take_hook();
    std::panic::set_hook(Box::new(|_| {}));
    let r = check_inner(c);
    std::panic::set_hook(prev_hook);
    r
}

fn check_inner(c: &Case) -> Vec<(String, String)> {
    let mut fails: Vec<(String, String)> = vec![];
    let (etx, erx) = channel::<String>();
    let (gtx, grx) = channel::<()>();
    let (dtx, drx) = channel::<()>();
    let handled = Arc::new(Mutex::new(Vec::<String>::new()));
    let h2 = handled.clone();
    let wrapped = Gated { entered: Mutex::new(etx), gate: Mutex::new(grx), outs: c.outs.clone(), idx: AtomicUsize::new(0), dropped: Mutex::new(dtx) };
    let mut b = QueuingMetricSink::builder().with_error_handler(move |e: io::Error| h2.lock().unwrap().push(e.to_string()));
    if let Some(cap) = c.cap { b = b.with_capacity(cap); }
    let first = b.build(wrapped);
    let mut handles: Vec<Option<QueuingMetricSink>> = vec![Some(first)];
    // reference model
    let mut accepted: Vec<String> = vec![];      // in acceptance order
    let mut entered: Vec<String> = vec![];       // what the wrapped sink was handed, in order
    let mut in_flight = false;                   // the worker is inside the wrapped sink (gate closed)
    let mut queued = 0usize;
    let mut released = 0usize;
    let mut n = 0usize;
    let wait_enter = |entered: &mut Vec<String>| -> bool { match erx.recv_timeout(Duration::from_secs(10)) { Ok(m) => { entered.push(m); true } Err(_) => false } };
    for (op, h) in c.ops.iter() {
        match op {
            'e' | 'z' => {
                // 'z': a zero-length metric (a metric like any other for the queuing sink)
                let m = if *op == 'z' { String::new() } else { format!("m{}:1|c", n) }; n += 1;
                let hd = match handles.get(*h).and_then(|x| x.as_ref()) { Some(x) => x, None => continue };
                let t0 = std::time::Instant::now();
                let r = hd.emit(&m);
                if t0.elapsed() > Duration::from_secs(5) { fails.push(("C10".into(), format!("emit of {} took {:?}: it waited for the wrapped sink", m, t0.elapsed()))); }
                let room = c.cap.map_or(true, |cap| queued < cap);
                match r {
                    Ok(len) => {
                        if len != m.len() { fails.push(("C10".into(), format!("emit returned Ok({}) for a {}-byte metric", len, m.len()))); }
                        if !room { fails.push(("C10".into(), format!("emit of {} accepted although the bounded queue already held its capacity ({})", m, queued))); }
                        accepted.push(m.clone());
                        queued += 1;
                    }
                    Err(_) => { if room { fails.push(("C10".into(), format!("emit of {} refused although the queue had room ({} queued, capacity {:?})", m, queued, c.cap))); } }
                }
                if !in_flight && queued > 0 {
                    if wait_enter(&mut entered) { in_flight = true; queued -= 1; }
                    else { fails.push(("C08".into(), format!("{} was accepted (Ok) on a live handle but never handed to the wrapped sink", accepted.last().cloned().unwrap_or_default()))); return finish(fails); }
                }
            }
            'c' => { if let Some(Some(x)) = handles.get(*h) { let y = x.clone(); handles.push(Some(y)); } }
            'd' => { if let Some(x) = handles.get_mut(*h) { let live = handles_live(&handles_ref(x)); let _ = live; *x = None; } }
            'r' => {
                if in_flight {
                    let _ = gtx.send(()); released += 1; in_flight = false;
                    if queued > 0 {
                        if wait_enter(&mut entered) { in_flight = true; queued -= 1; }
                        else { fails.push(("C11".into(), format!("after the wrapped sink finished metric #{} ({:?}) the next queued metric was never delivered", released, c.outs.get(released - 1)))); return finish(fails); }
                    }
                }
            }
            _ => {}
        }
    }
    // quiescence with at least one handle alive: counters
    let live: Vec<&QueuingMetricSink> = handles.iter().filter_map(|x| x.as_ref()).collect();
    if let Some(hd) = live.first() {
        std::thread::sleep(Duration::from_millis(30));
        let (s, d, q) = (hd.submitted(), hd.drained(), hd.queued());
        if s != accepted.len() as u64 { fails.push(("C15".into(), format!("submitted() == {} but {} emits returned Ok", s, accepted.len()))); }
        if d != entered.len() as u64 { fails.push(("C15".into(), format!("drained() == {} but {} metrics were handed to the wrapped sink", d, entered.len()))); }
        // the reported panic count equals the number of panics that occurred (the count is updated while
        // the worker thread unwinds, so allow it a moment to get there; it must never overshoot)
        let exp_p = c.outs.iter().take(released).filter(|o| **o == 'p').count() as u64;
        let t0 = std::time::Instant::now();
        while hd.panics() < exp_p && t0.elapsed() < Duration::from_secs(5) { std::thread::sleep(Duration::from_millis(5)); }
        if hd.panics() != exp_p { fails.push(("C11".into(), format!("the wrapped sink panicked {} time(s) but panics() == {}", exp_p, hd.panics()))); }
        if q != s.saturating_sub(d) { fails.push(("C15".into(), format!("queued() == {} but submitted - drained == {}", q, s.saturating_sub(d)))); }
    }
    // shutdown: drop every handle, open all gates, expect everything delivered and the wrapped sink dropped
    let t0 = std::time::Instant::now();
    handles.clear();
    if t0.elapsed() > Duration::from_secs(5) { fails.push(("C09".into(), format!("dropping the handles took {:?}: drop must never block", t0.elapsed()))); }
    for _ in 0..(accepted.len() + 2) { let _ = gtx.send(()); }
    let deadline = std::time::Instant::now() + Duration::from_secs(12);
    let mut wrapped_dropped = false;
    while std::time::Instant::now() < deadline {
        while let Ok(m) = erx.try_recv() { entered.push(m); }
        if drx.try_recv().is_ok() { wrapped_dropped = true; break; }
        std::thread::sleep(Duration::from_millis(5));
    }
    while let Ok(m) = erx.try_recv() { entered.push(m); }
    if entered != accepted {
        let p = if c.outs.iter().take(entered.len().max(1)).any(|o| *o == 'p') { "C11" } else if c.ops.iter().any(|(o, _)| *o == 'd') || true { "C08" } else { "C08" };
        fails.push((p.into(), format!("accepted {:?} but the wrapped sink was handed {:?} (each accepted metric exactly once, in acceptance order)", accepted, entered)));
        if !wrapped_dropped || entered.len() < accepted.len() { fails.push(("C09".into(), format!("after the last drop only {} of {} accepted metrics were delivered", entered.len(), accepted.len()))); }
        if entered.len() < accepted.len() && p != "C08" { fails.push(("C08".into(), format!("accepted {:?}, delivered {:?}", accepted, entered))); }
    }
    if !wrapped_dropped { fails.push(("C09".into(), "after the last handle was dropped and every queued metric released, the wrapped sink was not dropped within 12 s (the background thread did not terminate)".into())); }
    let errs = c.outs.iter().take(entered.len()).filter(|o| **o == 'e' || **o == 'i').count();
    let got = handled.lock().unwrap().len();
    if got != errs { fails.push(("C16".into(), format!("the wrapped sink failed {} time(s) but the error handler was invoked {} time(s)", errs, got))); }
    finish(fails)
}

fn handles_ref(x: &Option<QueuingMetricSink>) -> Vec<&QueuingMetricSink> { x.iter().collect() }
fn handles_live(v: &Vec<&QueuingMetricSink>) -> usize { v.len() }
fn finish(f: Vec<(String, String)>) -> Vec<(String, String)> { f }

pub fn search(prop: &str, seed: u64, budget: u64) -> Option<(String, Vec<(String, String)>)> {
    let mut rng = Rng::new(seed);
    if prop == "C08" || prop == "C12" {
        // concurrent producers whose first emits overlap
        for cap in ["u", "4"] {
            let c = format!("par={};threads=4;cap={}", budget.min(40).max(10), cap);
            let f: Vec<(String, String)> = par_probe(&c).into_iter().filter(|(p, _)| p == prop).collect();
            if !f.is_empty() { return Some((c, f)); }
        }
        if prop == "C12" { return None; }
    }
    if prop == "C09" {
        // the drop racing with the start of the worker thread, for the capacities 0, 1 and unbounded
        for cap in ["0", "1", "u"] {
            let c = format!("race={};spin=3000;cap={}", (budget * 20).min(8000), cap);
            let f = race_probe(&c);
            if !f.is_empty() { return Some((c, f)); }
        }
    }
    for _ in 0..budget.min(400) {
        let cap = match rng.below(4) { 0 => None, k => Some(k as usize) };
        let nops = 2 + rng.below(7) as usize;
        let mut ops = vec![];
        let mut nh = 1usize;
        for _ in 0..nops {
            match rng.below(8) {
                0 => { ops.push(('c', rng.below(nh as u64) as usize)); nh += 1; }
                1 => ops.push(('d', rng.below(nh as u64) as usize)),
                2 | 3 => ops.push(('r', 0)),
                4 => ops.push((if rng.below(3) == 0 { 'z' } else { 'e' }, rng.below(nh as u64) as usize)),
                _ => ops.push(('e', rng.below(nh as u64) as usize)),
            }
        }
        let outs: Vec<char> = (0..8).map(|_| match rng.below(8) { 0 => 'p', 1 => 'e', 2 => 'i', 3 => 'z', _ => 'o' }).collect();
        let c = Case { cap, ops, outs };
        let fails = check(&c);
        if fails.iter().any(|(p, _)| p == prop) {
            return Some((c.to_string(), fails.into_iter().filter(|(p, _)| p == prop).collect()));
        }
    }
    None
}
