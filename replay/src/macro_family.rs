//! Family "macros": one process = one global client (it can be set only once). A case invokes one
//! statsd_* macro with 0..3 tags on a global client with a scripted sink and a counting error handler,
//! and compares with what the tagged quiet send on the same client emits (C17).
//! case syntax: m=<count|countbig (u64::MAX)|timedur (a rejected Duration)|gaugef (f64)|time|gauge|meter|histogram|distribution|set>;tags=<0..3>;fail=<0|1>;set=<0|1>;pre=<0|1>
//!   pre=1: the same thread first invokes the macro while NO client is set (it must panic), then the client is set
use cadence::prelude::*;
use cadence::{MetricError, MetricSink, StatsdClient};
use cadence_macros::{statsd_count, statsd_distribution, statsd_gauge, statsd_histogram, statsd_meter, statsd_set, statsd_time};
use std::io;
use std::sync::{Arc, Mutex};

struct Scripted { log: Arc<Mutex<Vec<String>>>, fail: bool }
impl MetricSink for Scripted {
    fn emit(&self, m: &str) -> io::Result<usize> {
        self.log.lock().unwrap().push(m.to_string());
        if self.fail { Err(io::Error::new(io::ErrorKind::BrokenPipe, "scripted")) } else { Ok(m.len()) }
    }
}

pub fn run_case(s: &str) -> Result<Vec<(String, String)>, String> {
    let (mut m, mut tags, mut fail, mut set, mut pre) = ("count".to_string(), 0usize, false, true, false);
    for kv in s.split(';') {
        let mut it = kv.splitn(2, '=');
        let (k, v) = (it.next().unwrap_or(""), it.next().unwrap_or(""));
        match k { "m" => m = v.to_string(), "tags" => tags = v.parse().map_err(|_| "tags")?, "fail" => fail = v == "1", "set" => set = v == "1", "pre" => pre = v == "1", "" => {}, _ => return Err(format!("bad key {}", k)) }
    }
    let mut fails = vec![];
    if pre {
        let prev = std::panic::take_hook();
        std::panic::set_hook(Box::new(|_| {}));
        let r = std::panic::catch_unwind(|| { statsd_count!("early.key", 1); });
        std::panic::set_hook(prev);
        if r.is_ok() { fails.push(("C17".to_string(), "macro did not panic although no global client was set yet".to_string())); }
    }
    let log = Arc::new(Mutex::new(vec![]));
    let handled = Arc::new(Mutex::new(0usize));
    let h2 = handled.clone();
    if set {
        let client = StatsdClient::builder("pre", Scripted { log: log.clone(), fail })
            .with_tag("dflt", "1")
            .with_error_handler(move |_e: MetricError| { *h2.lock().unwrap() += 1; })
            .build();
        cadence_macros::set_global_default(client);
    }
    macro_rules! invoke { ($mac:ident, $v:expr) => { match tags {
        0 => { $mac!("some.key", $v); }
        1 => { $mac!("some.key", $v, "a" => "1"); }
        2 => { $mac!("some.key", $v, "a" => "1", "b" => "2"); }
        _ => { $mac!("some.key", $v, "a" => "1", "b" => "2", "c" => "3"); }
    } } }
    let prev = std::panic::take_hook();
    std::panic::set_hook(Box::new(|_| {}));
    let r = std::panic::catch_unwind(|| { match m.as_str() {
        "count" => invoke!(statsd_count, 4),
        "countbig" => invoke!(statsd_count, u64::MAX),
        "timedur" => invoke!(statsd_time, std::time::Duration::from_secs(u64::MAX)),
        "gaugef" => invoke!(statsd_gauge, -0.25f64),
        "time" => invoke!(statsd_time, 15u64),
        "gauge" => invoke!(statsd_gauge, 7u64),
        "meter" => invoke!(statsd_meter, 2u64),
        "histogram" => invoke!(statsd_histogram, 9u64),
        "distribution" => invoke!(statsd_distribution, 5u64),
        _ => invoke!(statsd_set, 3),
    } });
    std::panic::set_hook(prev);
    if !set {
        if r.is_ok() { fails.push(("C17".to_string(), format!("{} macro did not panic although no global client is set", m))); }
        if !log.lock().unwrap().is_empty() { fails.push(("C17".to_string(), "something was emitted although no global client is set".to_string())); }
        return Ok(fails);
    }
    if r.is_err() { fails.push(("C17".to_string(), format!("{} macro panicked although a global client is set", m))); return Ok(fails); }
    let macro_emits: Vec<String> = log.lock().unwrap().clone();
    let macro_handled = *handled.lock().unwrap();
    // the reference: the corresponding tagged call + tags in order + quiet send on the same client
    let client = cadence_macros::get_global_default().map_err(|_| "global")?;
    macro_rules! reference { ($b:expr) => {{ let mut b = $b; if tags >= 1 { b = b.with_tag("a", "1"); } if tags >= 2 { b = b.with_tag("b", "2"); } if tags >= 3 { b = b.with_tag("c", "3"); } b.send(); }} }
    match m.as_str() {
        "count" => reference!(client.count_with_tags("some.key", 4)),
        "countbig" => reference!(client.count_with_tags("some.key", u64::MAX)),
        "timedur" => reference!(client.time_with_tags("some.key", std::time::Duration::from_secs(u64::MAX))),
        "gaugef" => reference!(client.gauge_with_tags("some.key", -0.25f64)),
        "time" => reference!(client.time_with_tags("some.key", 15u64)),
        "gauge" => reference!(client.gauge_with_tags("some.key", 7u64)),
        "meter" => reference!(client.meter_with_tags("some.key", 2u64)),
        "histogram" => reference!(client.histogram_with_tags("some.key", 9u64)),
        "distribution" => reference!(client.distribution_with_tags("some.key", 5u64)),
        _ => reference!(client.set_with_tags("some.key", 3)),
    }
    let all: Vec<String> = log.lock().unwrap().clone();
    let ref_emits: Vec<String> = all[macro_emits.len()..].to_vec();
    let ref_handled = *handled.lock().unwrap() - macro_handled;
    if macro_emits != ref_emits { fails.push(("C17".to_string(), format!("{}! with {} tag(s) emitted {:?}; the tagged quiet send emits {:?}", m, tags, macro_emits, ref_emits))); }
    if macro_handled != ref_handled { fails.push(("C17".to_string(), format!("{}! with {} tag(s) (failing sink: {}): the client's error handler was invoked {} time(s); the tagged quiet send invokes it {} time(s)", m, tags, fail, macro_handled, ref_handled))); }
    Ok(fails)
}

pub fn search(prop: &str, _seed: u64, _budget: u64) -> Option<(String, Vec<(String, String)>)> {
    if prop != "C17" { return None; }
    let exe = std::env::current_exe().ok()?;
    for m in ["count", "countbig", "timedur", "gaugef", "time", "gauge", "meter", "histogram", "distribution", "set"] {
        for tags in 0..4 { for fail in [0, 1] { for (set, pre) in [(1, 0), (0, 0), (1, 1)] {
            let case = format!("m={};tags={};fail={};set={};pre={}", m, tags, fail, set, pre);
            let out = std::process::Command::new(&exe).args(["run", "macros", &case]).output().ok()?;
            if out.status.code() == Some(1) {
                let text = String::from_utf8_lossy(&out.stdout).to_string();
                let fails: Vec<(String, String)> = text.lines().filter_map(|l| l.strip_prefix("FAIL C17 ").map(|x| ("C17".to_string(), x.to_string()))).collect();
                return Some((case, fails));
            }
        } } }
    }
    None
}
