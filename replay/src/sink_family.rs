//! Family "sink": the real Unix-datagram sinks against real sockets in a private temp directory.
//! case syntax: buf=<0|1>;cap=<n>;link=<0|1>;ops=<e<len>|f|L|U|R>,...
//!   e<len> emit a metric of <len> bytes | f flush | L start listening at the path | U stop listening |
//!   R re-point the symlink (link=1: the sink was given a symlink path) to a second socket
//! Oracles: C13 (payload / destination), C14 (statistics add up), C12/C06 are not judged here.
use crate::rng::Rng;
use cadence::{BufferedUnixMetricSink, MetricSink, UnixMetricSink};
use std::os::unix::net::UnixDatagram;
use std::path::PathBuf;
use std::time::Duration;

enum AnySink { Plain(UnixMetricSink), Buffered(BufferedUnixMetricSink) }
impl AnySink {
    fn s(&self) -> &dyn MetricSink { match self { AnySink::Plain(x) => x, AnySink::Buffered(x) => x } }
}

/// case `udp=<buffered 0|1>`: the UDP sinks against real loopback sockets, with the receiver going away and
/// coming back: (1) a datagram is sent while NOBODY listens on the destination port (the kernel answers
/// with an ICMP error, which an unconnected UDP socket never sees), (2) a receiver binds the port again,
/// (3) the next metric must be handed to the socket and arrive, whole and alone. C13: every emit/flush puts
/// the metric bytes on the wire to the address given at construction; earlier losses do not change that.
fn udp_case(buffered: bool) -> Vec<(String, String)> {
    use cadence::{BufferedUdpMetricSink, UdpMetricSink};
    use std::net::UdpSocket;
    let mut fails = vec![];
    let probe = match UdpSocket::bind("127.0.0.1:0") { Ok(s) => s, Err(_) => return fails };
    let port = match probe.local_addr() { Ok(a) => a.port(), Err(_) => return fails };
    drop(probe); // nobody listens on the port now
    let sock = match UdpSocket::bind("127.0.0.1:0") { Ok(s) => s, Err(_) => return fails };
    let sink: Box<dyn MetricSink> = if buffered {
        match BufferedUdpMetricSink::with_capacity(("127.0.0.1", port), sock, 64) { Ok(s) => Box::new(s), Err(_) => return fails }
    } else {
        match UdpMetricSink::from(("127.0.0.1", port), sock) { Ok(s) => Box::new(s), Err(_) => return fails }
    };
    let _ = sink.emit("lost:1|c");
    let _ = sink.flush();
    std::thread::sleep(Duration::from_millis(100)); // let the ICMP answer arrive
    let rx = match UdpSocket::bind(("127.0.0.1", port)) { Ok(s) => s, Err(_) => return fails }; // port taken meanwhile: no verdict
    let _ = rx.set_read_timeout(Some(Duration::from_secs(2)));
    let r1 = sink.emit("kept:2|c");
    let r2 = sink.flush();
    let mut buf = [0u8; 256];
    let got = rx.recv(&mut buf).ok().map(|n| String::from_utf8_lossy(&buf[..n]).to_string());
    let want = if buffered { "kept:2|c\n" } else { "kept:2|c" };
    if got.as_deref() != Some(want) {
        fails.push(("C13".to_string(), format!("after an earlier datagram was lost (no receiver), the next metric must still be handed to the socket: emit -> {:?}, flush -> {:?}, receiver got {:?}, expected {:?}", r1.map_err(|e| e.kind()), r2.map_err(|e| e.kind()), got, want)));
    }
    fails
}

pub fn run_case(s: &str) -> Result<Vec<(String, String)>, String> {
    if let Some(v) = s.strip_prefix("udp=") { return Ok(udp_case(v.starts_with('1'))); }
    let (mut buf, mut cap, mut link, mut ops) = (false, 16usize, false, vec![]);
    for kv in s.split(';') {
        let mut it = kv.splitn(2, '=');
        let (k, v) = (it.next().unwrap_or(""), it.next().unwrap_or(""));
        match k {
            "buf" => buf = v == "1", "cap" => cap = v.parse().map_err(|_| "cap")?, "link" => link = v == "1",
            "ops" => ops = v.split(',').filter(|x| !x.is_empty()).map(|x| x.to_string()).collect(),
            "" => {}
            _ => return Err(format!("bad key {}", k)),
        }
    }
    Ok(check(buf, cap, link, &ops))
}

fn recv_all(sock: &Option<UnixDatagram>) -> Vec<Vec<u8>> {
    let mut v = vec![];
    if let Some(s) = sock {
        let mut b = [0u8; 2048];
        while let Ok(n) = s.recv(&mut b) { v.push(b[..n].to_vec()); }
    }
    v
}

pub fn check(buffered: bool, cap: usize, link: bool, ops: &[String]) -> Vec<(String, String)> {
    let mut fails = vec![];
    let dir: PathBuf = std::env::temp_dir().join(format!("cadence-verif-sink-{}-{:?}", std::process::id(), std::thread::current().id()));
    let _ = std::fs::remove_dir_all(&dir);
    if std::fs::create_dir_all(&dir).is_err() { return fails; }
    let real1 = dir.join("s1.sock");
    let real2 = dir.join("s2.sock");
    let given = if link { dir.join("link.sock") } else { real1.clone() };
    let bind = |p: &PathBuf| -> Option<UnixDatagram> { let _ = std::fs::remove_file(p); let s = UnixDatagram::bind(p).ok()?; s.set_read_timeout(Some(Duration::from_millis(30))).ok()?; Some(s) };
    let mut l1 = bind(&real1);
    let mut l2: Option<UnixDatagram> = None;
    if link { let _ = std::os::unix::fs::symlink(&real1, &given); }
    let client = match UnixDatagram::unbound() { Ok(c) => c, Err(_) => return fails };
    let sink = if buffered { AnySink::Buffered(BufferedUnixMetricSink::with_capacity(&given, client, cap)) } else { AnySink::Plain(UnixMetricSink::from(&given, client)) };
    let mut target_is_2 = false;
    // reference accounting
    let (mut exp_sent_p, mut exp_sent_b, mut exp_drop_p, mut exp_drop_b) = (0u64, 0u64, 0u64, 0u64);
    let mut pending: Vec<u8> = vec![];
    let mut n = 0usize;
    for op in ops {
        let listening = if target_is_2 { l2.is_some() } else { l1.is_some() };
        let c = op.chars().next().unwrap_or(' ');
        match c {
            'e' => {
                let len: usize = op[1..].parse().unwrap_or(1);
                let m: String = std::iter::repeat((b'a' + (n % 26) as u8) as char).take(len.max(1)).collect(); n += 1;
                let r = sink.s().emit(&m);
                if !buffered {
                    if listening {
                        if !matches!(r, Ok(k) if k == m.len()) { fails.push(("C13".into(), format!("emit of {:?} with a listener returned {:?}", m, r.as_ref().map_err(|e| e.kind())))); }
                        exp_sent_p += 1; exp_sent_b += m.len() as u64;
                        let got = recv_all(if target_is_2 { &l2 } else { &l1 });
                        if got != vec![m.as_bytes().to_vec()] { fails.push(("C13".into(), format!("the socket at the path given to the sink received {:?}, expected exactly one datagram {:?}", got.iter().map(|x| String::from_utf8_lossy(x).to_string()).collect::<Vec<_>>(), m))); }
                    } else {
                        if r.is_ok() { fails.push(("C13".into(), "emit without a listener returned Ok".into())); }
                        exp_drop_p += 1; exp_drop_b += m.len() as u64;
                    }
                } else {
                    // reference model of the line buffer (C05/C06 are decided elsewhere; here only what reaches the socket)
                    let required = m.len() + 1;
                    let mut send: Vec<Vec<u8>> = vec![];
                    if required > cap { send.push(m.as_bytes().to_vec()); }
                    else { if pending.len() + required > cap && !pending.is_empty() { send.push(pending.clone()); } }
                    let mut failed = false;
                    for d in send.iter() {
                        if listening { exp_sent_p += 1; exp_sent_b += d.len() as u64; if required <= cap { pending.clear(); } }
                        else { exp_drop_p += 1; exp_drop_b += d.len() as u64; failed = true; }
                    }
                    if !failed && required <= cap { pending.extend_from_slice(m.as_bytes()); pending.push(b'\n'); }
                    if failed != r.is_err() { fails.push(("C13".into(), format!("buffered emit of {:?}: socket failure expected={} but emit returned {:?}", m, failed, r.as_ref().map_err(|e| e.kind())))); }
                    let got = recv_all(if target_is_2 { &l2 } else { &l1 });
                    let want: Vec<Vec<u8>> = if listening { send.clone() } else { vec![] };
                    if got != want { fails.push(("C13".into(), format!("buffered emit: the socket at the given path received {:?}, expected {:?}", got.iter().map(|x| String::from_utf8_lossy(x).to_string()).collect::<Vec<_>>(), want.iter().map(|x| String::from_utf8_lossy(x).to_string()).collect::<Vec<_>>()))); }
                }
            }
            'f' => {
                let r = sink.s().flush();
                if buffered && !pending.is_empty() {
                    if listening {
                        exp_sent_p += 1; exp_sent_b += pending.len() as u64;
                        let got = recv_all(if target_is_2 { &l2 } else { &l1 });
                        if got != vec![pending.clone()] { fails.push(("C13".into(), format!("flush: the socket at the given path received {:?}, expected the remaining lines {:?}", got.iter().map(|x| String::from_utf8_lossy(x).to_string()).collect::<Vec<_>>(), String::from_utf8_lossy(&pending)))); }
                        if r.is_err() { fails.push(("C13".into(), "flush with a listener failed".into())); }
                        pending.clear();
                    } else { exp_drop_p += 1; exp_drop_b += pending.len() as u64; if r.is_ok() { fails.push(("C13".into(), "flush without a listener returned Ok".into())); } }
                }
            }
            'L' => { if target_is_2 { if l2.is_none() { l2 = bind(&real2); } } else if l1.is_none() { l1 = bind(&real1); } }
            'U' => { if target_is_2 { l2 = None; let _ = std::fs::remove_file(&real2); } else { l1 = None; let _ = std::fs::remove_file(&real1); } }
            'R' => { if link && !target_is_2 { l2 = bind(&real2); let _ = std::fs::remove_file(&given); let _ = std::os::unix::fs::symlink(&real2, &given); target_is_2 = true; } }
            _ => {}
        }
        let st = sink.s().stats();
        if (st.packets_sent, st.bytes_sent, st.packets_dropped, st.bytes_dropped) != (exp_sent_p, exp_sent_b, exp_drop_p, exp_drop_b) {
            fails.push(("C14".into(), format!("after op {}: stats sent={}p/{}B dropped={}p/{}B, expected sent={}p/{}B dropped={}p/{}B", op, st.packets_sent, st.bytes_sent, st.packets_dropped, st.bytes_dropped, exp_sent_p, exp_sent_b, exp_drop_p, exp_drop_b)));
            break;
        }
    }
    drop(sink);
    let _ = std::fs::remove_dir_all(&dir);
    fails
}

pub fn search(prop: &str, seed: u64, budget: u64) -> Option<(String, Vec<(String, String)>)> {
    if prop == "C13" {
        for b in ["1", "0"] {
            let f = udp_case(b == "1");
            if !f.is_empty() { return Some((format!("udp={}", b), f)); }
        }
    }
    let mut rng = Rng::new(seed);
    for _ in 0..budget.min(150) {
        let buffered = rng.below(2) == 1;
        let cap = 4 + rng.below(12) as usize;
        let link = rng.below(2) == 1;
        let nops = 2 + rng.below(6);
        let ops: Vec<String> = (0..nops).map(|_| match rng.below(9) { 0 => "f".to_string(), 1 => "U".to_string(), 2 => "L".to_string(), 3 => "R".to_string(), _ => format!("e{}", 1 + rng.below(cap as u64 + 3)) }).collect();
        let fails = check(buffered, cap, link, &ops);
        if fails.iter().any(|(p, _)| p == prop) {
            let case = format!("buf={};cap={};link={};ops={}", buffered as u8, cap, link as u8, ops.join(","));
            return Some((case, fails.into_iter().filter(|(p, _)| p == prop).collect()));
        }
    }
    None
}
