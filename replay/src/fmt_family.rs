//! Family "fmt": one metric call on a real client (spy sink), compared with a reference renderer
//! written from the property statement (C01 / C04).
//! case syntax: p=<i>;k=<i>;kind=<0..6>;v=<i>;dt=<tag,tag..>;t=<tag,tag..>;dc=<i|->;c=<i|->;r=<i|->;ts=<i|->
//!   strings are indices into STRS; a tag is `<ki>.<vi>` (key:value) or `-.<vi>` (bare value)
use crate::rng::Rng;
use cadence::prelude::*;
use cadence::{Metric, MetricBuilder, MetricError, SpyMetricSink, StatsdClient};

const STRS: [&str; 8] = ["", "a", "ab", "svc.", "x..", "my.app", "k-1", "é"];
const RATES: [f64; 7] = [0.5, 1.0, 0.001, 1e-7, 0.0, 5e-324, 1e-310];
const TSS: [u64; 3] = [0, 1700000000, u64::MAX];

#[derive(Clone, Debug)]
pub struct Case { p: usize, k: usize, kind: usize, v: usize, dt: Vec<(Option<usize>, usize)>, t: Vec<(Option<usize>, usize)>, dc: Option<usize>, c: Option<usize>, r: Option<usize>, ts: Option<usize> }

fn opt(s: &str) -> Result<Option<usize>, String> { if s == "-" || s.is_empty() { Ok(None) } else { s.parse().map(Some).map_err(|_| format!("bad index {}", s)) } }
fn tags(s: &str) -> Result<Vec<(Option<usize>, usize)>, String> {
    let mut v = vec![];
    for t in s.split(',').filter(|x| !x.is_empty()) {
        let mut it = t.splitn(2, '.');
        let k = opt(it.next().unwrap_or("-"))?;
        let val = it.next().ok_or("tag")?.parse().map_err(|_| "tag value")?;
        v.push((k, val));
    }
    Ok(v)
}
impl Case {
    pub fn parse(s: &str) -> Result<Case, String> {
        let mut c = Case { p: 0, k: 1, kind: 0, v: 0, dt: vec![], t: vec![], dc: None, c: None, r: None, ts: None };
        for kv in s.split(';') {
            let mut it = kv.splitn(2, '=');
            let (k, v) = (it.next().unwrap_or(""), it.next().unwrap_or(""));
            match k {
                "p" => c.p = v.parse().map_err(|_| "p")?, "k" => c.k = v.parse().map_err(|_| "k")?,
                "kind" => c.kind = v.parse().map_err(|_| "kind")?, "v" => c.v = v.parse().map_err(|_| "v")?,
                "dt" => c.dt = tags(v)?, "t" => c.t = tags(v)?, "dc" => c.dc = opt(v)?, "c" => c.c = opt(v)?, "r" => c.r = opt(v)?, "ts" => c.ts = opt(v)?,
                "" => {}
                _ => return Err(format!("bad key {}", k)),
            }
        }
        Ok(c)
    }
    pub fn to_string(&self) -> String {
        let tg = |v: &Vec<(Option<usize>, usize)>| v.iter().map(|(k, x)| format!("{}.{}", k.map(|i| i.to_string()).unwrap_or("-".into()), x)).collect::<Vec<_>>().join(",");
        let o = |x: &Option<usize>| x.map(|i| i.to_string()).unwrap_or("-".into());
        format!("p={};k={};kind={};v={};dt={};t={};dc={};c={};r={};ts={}", self.p, self.k, self.kind, self.v, tg(&self.dt), tg(&self.t), o(&self.dc), o(&self.c), o(&self.r), o(&self.ts))
    }
}

fn s(i: usize) -> &'static str { STRS[i % STRS.len()] }

/// (rendered values, code) for kind x value variant, and a closure applying the call
fn decorate<'m, 'c, T: Metric + From<String>>(mut b: MetricBuilder<'m, 'c, T>, c: &Case) -> Result<String, MetricError> {
    for (k, v) in c.t.iter() {
        b = match k { Some(k) => b.with_tag(s(*k), s(*v)), None => b.with_tag_value(s(*v)) };
    }
    if let Some(i) = c.c { b = b.with_container_id(s(i)); }
    if let Some(i) = c.r { b = b.with_sampling_rate(RATES[i % RATES.len()]); }
    if let Some(i) = c.ts { b = b.with_timestamp(TSS[i % TSS.len()]); }
    b.try_send().map(|m| m.as_metric_str().to_string())
}

pub fn run_case(text: &str) -> Result<Vec<(String, String)>, String> {
    if let Some(v) = text.strip_prefix("disp=") { return Ok(display_case(v)); }
    let c = Case::parse(text)?;
    Ok(no_panic(&format!("the metric call of case {}", text), || check(&c)))
}

/// C20: no call panics. Runs `f`; a panic becomes a C20 failure.
fn no_panic<F: FnOnce() -> Vec<(String, String)>>(what: &str, f: F) -> Vec<(String, String)> {
    let prev = std::panic::take_hook();
    let msg = std::sync::Arc::new(std::sync::Mutex::new(String::new()));
    let m2 = msg.clone();
    std::panic::set_hook(Box::new(move |info| { *m2.lock().unwrap() = info.to_string(); }));
    let r = std::panic::catch_unwind(std::panic::AssertUnwindSafe(f));
    std::panic::set_hook(prev);
    match r { Ok(v) => v, Err(_) => vec![("C20".to_string(), format!("{} panicked: {}", what, msg.lock().unwrap().replace('\n', " ")))] }
}

/// case `disp=<ps|pu|pf><n>`: `to_string()` of a packed MetricValue of n elements (the public
/// `cadence::ext::MetricValue` can be built by callers directly, empty lists included)
fn display_case(v: &str) -> Vec<(String, String)> {
    use cadence::ext::MetricValue;
    let n: usize = v.get(2..).and_then(|x| x.parse().ok()).unwrap_or(0);
    let val = match v.get(..2) {
        Some("ps") => MetricValue::PackedSigned((0..n as i64).map(|i| -i).collect()),
        Some("pu") => MetricValue::PackedUnsigned((0..n as u64).collect()),
        _ => MetricValue::PackedFloat((0..n).map(|i| i as f64 + 0.5).collect()),
    };
    no_panic(&format!("Display of a packed value of {} element(s)", n), move || {
        let text = val.to_string();
        if text.split(':').filter(|x| !x.is_empty()).count() != n { vec![("C01".to_string(), format!("packed value of {} element(s) rendered as {:?}", n, text))] } else { vec![] }
    })
}

pub fn check(c: &Case) -> Vec<(String, String)> {
    let (rx, sink) = SpyMetricSink::new();
    let mut b = StatsdClient::builder(s(c.p), sink);
    for (k, v) in c.dt.iter() { b = match k { Some(k) => b.with_tag(s(*k), s(*v)), None => b.with_tag_value(s(*v)) }; }
    if let Some(i) = c.dc { b = b.with_container_id(s(i)); }
    let client = b.build();
    let key = s(c.k);
    // value variants per kind: (call, expected "v1:v2" text)
    let (res, vals, code): (Result<String, MetricError>, String, &str) = match c.kind % 7 {
        0 => match c.v % 6 {
            0 => (decorate(client.count_with_tags(key, -7i64), c), "-7".into(), "c"),
            1 => (decorate(client.count_with_tags(key, i64::MIN), c), i64::MIN.to_string(), "c"),
            2 => (decorate(client.count_with_tags(key, 42u32), c), "42".into(), "c"),
            3 => (decorate(client.incr_with_tags(key), c), "1".into(), "c"),
            5 => (decorate(client.count_with_tags(key, u64::MAX), c), u64::MAX.to_string(), "c"),
            _ => (decorate(client.decr_with_tags(key), c), "-1".into(), "c"),
        },
        1 => match c.v % 3 {
            0 => (decorate(client.time_with_tags(key, 157u64), c), "157".into(), "ms"),
            1 => (decorate(client.time_with_tags(key, std::time::Duration::from_micros(2_500_999)), c), "2500".into(), "ms"),
            _ => (decorate(client.time_with_tags(key, vec![1u64, 20, 300]), c), "1:20:300".into(), "ms"),
        },
        2 => match c.v % 2 {
            0 => (decorate(client.gauge_with_tags(key, u64::MAX), c), u64::MAX.to_string(), "g"),
            _ => (decorate(client.gauge_with_tags(key, -0.25f64), c), "-0.25".into(), "g"),
        },
        3 => (decorate(client.meter_with_tags(key, 9u64), c), "9".into(), "m"),
        4 => match c.v % 4 {
            0 => (decorate(client.histogram_with_tags(key, 4u64), c), "4".into(), "h"),
            1 => (decorate(client.histogram_with_tags(key, vec![1.5f64, 2.0, 1e300]), c), format!("{}:{}:{}", 1.5f64, 2.0f64, 1e300f64), "h"),
            2 => (decorate(client.histogram_with_tags(key, std::time::Duration::new(1, 5)), c), "1000000005".into(), "h"),
            _ => (decorate(client.histogram_with_tags(key, vec![std::time::Duration::new(0, 7), std::time::Duration::new(2, 0)]), c), "7:2000000000".into(), "h"),
        },
        5 => match c.v % 2 {
            0 => (decorate(client.distribution_with_tags(key, vec![3u64]), c), "3".into(), "d"),
            _ => (decorate(client.distribution_with_tags(key, 0.1f64), c), format!("{}", 0.1f64), "d"),
        },
        _ => (decorate(client.set_with_tags(key, -3i64), c), "-3".into(), "s"),
    };
    // reference rendering, from the property statement
    let prefix = s(c.p);
    let mut name = String::new();
    if !prefix.is_empty() { name.push_str(prefix.trim_end_matches('.')); name.push('.'); }
    name.push_str(key);
    let mut line = format!("{}:{}|{}", name, vals, code);
    if let Some(i) = c.r { line.push_str(&format!("|@{}", RATES[i % RATES.len()])); }
    let all: Vec<String> = c.dt.iter().chain(c.t.iter()).map(|(k, v)| match k { Some(k) => format!("{}:{}", s(*k), s(*v)), None => s(*v).to_string() }).collect();
    if !all.is_empty() { line.push_str("|#"); line.push_str(&all.join(",")); }
    if let Some(i) = c.c.or(c.dc) { line.push_str(&format!("|c:{}", s(i))); }
    if let Some(i) = c.ts { line.push_str(&format!("|T{}", TSS[i % TSS.len()])); }
    let sent: Vec<String> = rx.try_iter().map(|v| String::from_utf8_lossy(&v).to_string()).collect();
    let mut fails = vec![];
    // C04 looks only at the tag section and the container section of the line (whatever their position)
    let sections = |l: &str| -> (Option<String>, Option<String>) {
        let mut tags = None; let mut cid = None;
        for sec in l.split('|').skip(1) {
            if let Some(t) = sec.strip_prefix('#') { tags = Some(t.to_string()); }
            if let Some(t) = sec.strip_prefix("c:") { cid = Some(t.to_string()); }
        }
        (tags, cid)
    };
    let want = sections(&line);
    match res {
        Ok(got) => {
            if got != line { fails.push(("C01".to_string(), format!("returned metric text {:?}, expected {:?}", got, line))); }
            // C02: the sampling rate supplied is on the wire, bit-identical after parsing back
            let rate_of = |l: &str| l.split('|').skip(1).find_map(|sec| sec.strip_prefix('@').map(|x| x.parse::<f64>().ok().map(|v| v.to_bits())));
            let want_rate = c.r.map(|i| Some(RATES[i % RATES.len()].to_bits()));
            if rate_of(&got) != want_rate { fails.push(("C02".to_string(), format!("sampling rate section of {:?} parses back to {:?}, supplied {:?}", got, rate_of(&got), want_rate))); }
            if sent != vec![line.clone()] { fails.push(("C01".to_string(), format!("sink received {:?}, expected exactly [{:?}]", sent, line))); }
            for l in sent.iter().chain(std::iter::once(&got)) {
                if sections(l) != want {
                    fails.push(("C04".to_string(), format!("line {:?}: tag section / container section {:?}, expected {:?} (defaults first in configured order, then per-call tags; per-call container id replaces the default)", l, sections(l), want)));
                    break;
                }
            }
        }
        Err(e) => fails.push(("C01".to_string(), format!("valid call rejected: {:?}", e.kind()))),
    }
    fails
}

pub fn search(prop: &str, seed: u64, budget: u64) -> Option<(String, Vec<(String, String)>)> {
    let mut rng = Rng::new(seed);
    if prop == "C20" || prop == "C01" {
        for kind in ["ps", "pu", "pf"] { for n in 0..4 {
            let c = format!("{}{}", kind, n);
            let f: Vec<(String, String)> = display_case(&c).into_iter().filter(|(p, _)| p == prop).collect();
            if !f.is_empty() { return Some((format!("disp={}", c), f)); }
        } }
    }
    for _ in 0..budget.min(60000) {
        let n = STRS.len() as u64;
        let tag = |rng: &mut Rng| (if rng.below(2) == 0 { None } else { Some(rng.below(n) as usize) }, rng.below(n) as usize);
        let ndt = rng.below(4);
        let nt = rng.below(4);
        let o = |rng: &mut Rng, m: u64| if rng.below(2) == 0 { None } else { Some(rng.below(m) as usize) };
        let c = Case { p: rng.below(n) as usize, k: rng.below(n) as usize, kind: rng.below(7) as usize, v: rng.below(6) as usize,
            dt: (0..ndt).map(|_| tag(&mut rng)).collect(), t: (0..nt).map(|_| tag(&mut rng)).collect(),
            dc: o(&mut rng, n), c: o(&mut rng, n), r: o(&mut rng, RATES.len() as u64), ts: o(&mut rng, 3) };
        let fails = no_panic("a metric call", || check(&c));
        if fails.iter().any(|(p, _)| p == prop) {
            return Some((c.to_string(), fails.into_iter().filter(|(p, _)| p == prop).collect()));
        }
    }
    None
}
