//! Replay / search binary: re-executes concrete cases against the REAL cadence crate (path
//! dependency on /repo) and evaluates executable oracles taken from the property statements.
//! It is never the deciding step of a check: it only produces the artefact (a failing input)
//! that accompanies a failed proof obligation, or confirms a counterexample.
//!
//!   replay run    <family> <case>            exit 0 = all oracles hold, 1 = some oracle fails (prints FAIL lines)
//!   replay search <family> <prop> <seed> <budget>   prints `FOUND <case>` + FAIL lines, or `NOTFOUND`
mod client_family;
mod conv_family;
mod fmt_family;
mod io_family;
mod macro_family;
mod queue_family;
mod rng;
mod sink_family;

fn main() {
    let args: Vec<String> = std::env::args().collect();
    if args.len() < 4 {
        eprintln!("usage: replay run <family> <case> | replay search <family> <prop> <seed> <budget>");
        std::process::exit(2);
    }
    let family = args[2].as_str();
    match args[1].as_str() {
        "run" => {
            let fails = match family {
                "io" => io_family::run_case(&args[3]),
                "conv" => conv_family::run_case(&args[3]),
                "fmt" => fmt_family::run_case(&args[3]),
                "client" => client_family::run_case(&args[3]),
                "queue" => queue_family::run_case(&args[3]),
                "macros" => macro_family::run_case(&args[3]),
                "sink" => sink_family::run_case(&args[3]),
                _ => {
                    eprintln!("unknown family {}", family);
                    std::process::exit(2);
                }
            };
            match fails {
                Err(e) => {
                    eprintln!("bad case: {}", e);
                    std::process::exit(2);
                }
                Ok(f) if f.is_empty() => {
                    println!("OK");
                }
                Ok(f) => {
                    for (p, m) in f {
                        println!("FAIL {} {}", p, m);
                    }
                    std::process::exit(1);
                }
            }
        }
        "search" => {
            let prop = args[3].as_str();
            let seed: u64 = args.get(4).and_then(|s| s.parse().ok()).unwrap_or(0);
            let budget: u64 = args.get(5).and_then(|s| s.parse().ok()).unwrap_or(20000);
            let found = match family {
                "io" => io_family::search(prop, seed, budget),
                "conv" => conv_family::search(prop, seed, budget),
                "fmt" => fmt_family::search(prop, seed, budget),
                "client" => client_family::search(prop, seed, budget),
                "queue" => queue_family::search(prop, seed, budget),
                "macros" => macro_family::search(prop, seed, budget),
                "sink" => sink_family::search(prop, seed, budget),
                _ => {
                    eprintln!("unknown family {}", family);
                    std::process::exit(2);
                }
            };
            match found {
                Some((case, fails)) => {
                    println!("FOUND {}", case);
                    for (p, m) in fails {
                        println!("FAIL {} {}", p, m);
                    }
                }
                None => println!("NOTFOUND"),
            }
        }
        _ => std::process::exit(2),
    }
}
