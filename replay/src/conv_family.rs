//! Family "conv": Duration conversions through the real client and a spy sink.
//! case syntax: kind=timer|hist;secs=<u64>;nanos=<u32>[;pos=<index in a packed list of 3>]
use crate::rng::Rng;
use cadence::prelude::*;
use cadence::{ErrorKind, Metric, SpyMetricSink, StatsdClient};
use std::time::Duration;

fn parse(s: &str) -> Result<(String, u64, u32, Option<usize>), String> {
    let (mut kind, mut secs, mut nanos, mut pos) = ("timer".to_string(), 0u64, 0u32, None);
    for kv in s.split(';') {
        let mut it = kv.splitn(2, '=');
        let (k, v) = (it.next().unwrap_or(""), it.next().unwrap_or(""));
        match k {
            "kind" => kind = v.to_string(),
            "secs" => secs = v.parse().map_err(|_| "secs")?,
            "nanos" => nanos = v.parse().map_err(|_| "nanos")?,
            "pos" => pos = Some(v.parse().map_err(|_| "pos")?),
            "" => {}
            _ => return Err(format!("bad key {}", k)),
        }
    }
    if nanos >= 1_000_000_000 { return Err("nanos out of range".into()); }
    Ok((kind, secs, nanos, pos))
}

pub fn run_case(s: &str) -> Result<Vec<(String, String)>, String> {
    let (kind, secs, nanos, pos) = parse(s)?;
    Ok(check(&kind, secs, nanos, pos))
}

pub fn check(kind: &str, secs: u64, nanos: u32, pos: Option<usize>) -> Vec<(String, String)> {
    let mut fails = vec![];
    let d = Duration::new(secs, nanos);
    let exact: u128 = if kind == "timer" { (secs as u128) * 1000 + (nanos as u128) / 1_000_000 } else { (secs as u128) * 1_000_000_000 + nanos as u128 };
    let code = if kind == "timer" { "ms" } else { "h" };
    let (rx, sink) = SpyMetricSink::new();
    let client = StatsdClient::from_sink("", sink);
    let (res, expect): (Result<String, ErrorKind>, Option<String>) = match pos {
        None => {
            let r = if kind == "timer" { client.time("k", d).map(|m| m.as_metric_str().to_string()) } else { client.histogram("k", d).map(|m| m.as_metric_str().to_string()) };
            (r.map_err(|e| e.kind()), if exact <= u64::MAX as u128 { Some(format!("k:{}|{}", exact, code)) } else { None })
        }
        Some(p) => {
            let mut v = vec![Duration::new(1, 0), Duration::new(2, 0), Duration::new(3, 0)];
            v[p % 3] = d;
            let unit = |x: u64| if kind == "timer" { x * 1000 } else { x * 1_000_000_000 };
            let mut parts: Vec<String> = vec![unit(1).to_string(), unit(2).to_string(), unit(3).to_string()];
            parts[p % 3] = exact.to_string();
            let r = if kind == "timer" { client.time("k", v).map(|m| m.as_metric_str().to_string()) } else { client.histogram("k", v).map(|m| m.as_metric_str().to_string()) };
            (r.map_err(|e| e.kind()), if exact <= u64::MAX as u128 { Some(format!("k:{}|{}", parts.join(":"), code)) } else { None })
        }
    };
    let sent: Vec<String> = rx.try_iter().map(|v| String::from_utf8_lossy(&v).to_string()).collect();
    match (&res, &expect) {
        (Ok(line), Some(e)) => {
            if line != e { fails.push(("C02".to_string(), format!("{} Duration({}s,{}ns): sent {:?}, expected {:?}", kind, secs, nanos, line, e))); }
            if sent != vec![e.clone()] { fails.push(("C02".to_string(), format!("sink received {:?}, expected exactly [{:?}]", sent, e))); }
        }
        (Ok(line), None) => fails.push(("C02".to_string(), format!("{} Duration({}s,{}ns) does not fit in 64 bits (exact count {}) but was accepted and sent as {:?}", kind, secs, nanos, exact, line))),
        (Err(k), Some(e)) => fails.push(("C02".to_string(), format!("{} Duration({}s,{}ns) fits (expected {:?}) but was rejected with {:?}", kind, secs, nanos, e, k))),
        (Err(k), None) => {
            if *k != ErrorKind::InvalidInput { fails.push(("C02".to_string(), format!("overflow reported as {:?}, not InvalidInput", k))); }
            if !sent.is_empty() { fails.push(("C02".to_string(), format!("value rejected but the sink received {:?}", sent))); }
        }
    }
    fails
}

pub fn search(prop: &str, seed: u64, budget: u64) -> Option<(String, Vec<(String, String)>)> {
    let mut rng = Rng::new(seed);
    let mut cands: Vec<(u64, u32)> = vec![];
    for (unit_per_s, sub) in [(1000u128, 1_000_000u128), (1_000_000_000u128, 1u128)] {
        let limit = u64::MAX as u128;
        for delta in -3i128..=400 {
            let count = (limit as i128 + delta) as u128;
            let secs = count / unit_per_s;
            if secs > u64::MAX as u128 { continue; }
            let rem = count % unit_per_s;
            for extra in [0u128, sub - 1] {
                let nanos = rem * sub + extra.min(sub - 1);
                if nanos < 1_000_000_000 { cands.push((secs as u64, nanos as u32)); }
            }
        }
    }
    for s in [0u64, 1, u64::MAX, u64::MAX / 1000, u64::MAX / 1000 + 1, u64::MAX / 1_000_000_000, u64::MAX / 1_000_000_000 + 1] {
        for n in [0u32, 1, 999_999, 1_000_000, 999_999_999, 616_000_000, 615_999_999] { cands.push((s, n)); }
    }
    for _ in 0..budget.min(20000) { cands.push((rng.next(), (rng.below(1_000_000_000)) as u32)); }
    for (secs, nanos) in cands {
        for kind in ["timer", "hist"] {
            for pos in [None, Some(0usize), Some(2usize)] {
                let f = check(kind, secs, nanos, pos);
                if f.iter().any(|(p, _)| p == prop) {
                    let case = format!("kind={};secs={};nanos={}{}", kind, secs, nanos, pos.map(|p| format!(";pos={}", p)).unwrap_or_default());
                    return Some((case, f));
                }
            }
        }
    }
    None
}
