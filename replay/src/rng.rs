/// xorshift64* -- deterministic, seedable
pub struct Rng(pub u64);
impl Rng {
    pub fn new(seed: u64) -> Rng {
        Rng(seed.wrapping_mul(0x9E3779B97F4A7C15) ^ 0xD1B54A32D192ED03 | 1)
    }
    pub fn next(&mut self) -> u64 {
        let mut x = self.0;
        x ^= x >> 12;
        x ^= x << 25;
        x ^= x >> 27;
        self.0 = x;
        x.wrapping_mul(0x2545F4914F6CDD1D)
    }
    pub fn below(&mut self, n: u64) -> u64 {
        if n == 0 { 0 } else { self.next() % n }
    }
}
