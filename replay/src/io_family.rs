//! Family "io": histories of write/flush/drop on the real `cadence::ext::MultiLineWriter`
//! over a recording, scriptable all-or-nothing datagram writer.
//! case syntax:  cap=<n>;end=<hex bytes>;ops=<w<len>|f>,...;fail=<string of 0/1 per attempt>
use crate::rng::Rng;
use cadence::ext::MultiLineWriter;
use std::cell::RefCell;
use std::io::{self, Write};
use std::rc::Rc;

#[derive(Clone, Debug)]
pub enum Op {
    W(usize),
    F,
}

#[derive(Clone, Debug)]
pub struct Case {
    pub cap: usize,
    pub end: Vec<u8>,
    pub ops: Vec<Op>,
    pub fail: Vec<bool>,
}

impl Case {
    pub fn to_string(&self) -> String {
        let end: String = self.end.iter().map(|b| format!("{:02x}", b)).collect();
        let ops: Vec<String> = self.ops.iter().map(|o| match o { Op::W(n) => format!("w{}", n), Op::F => "f".to_string() }).collect();
        let fail: String = self.fail.iter().map(|b| if *b { '1' } else { '0' }).collect();
        format!("cap={};end={};ops={};fail={}", self.cap, end, ops.join(","), fail)
    }
    pub fn parse(s: &str) -> Result<Case, String> {
        let mut c = Case { cap: 0, end: vec![b'\n'], ops: vec![], fail: vec![] };
        for kv in s.split(';') {
            let mut it = kv.splitn(2, '=');
            let k = it.next().unwrap_or("");
            let v = it.next().unwrap_or("");
            match k {
                "cap" => c.cap = v.parse().map_err(|_| "cap")?,
                "end" => {
                    c.end = (0..v.len() / 2).map(|i| u8::from_str_radix(&v[2 * i..2 * i + 2], 16).unwrap_or(b'\n')).collect();
                }
                "ops" => {
                    for o in v.split(',').filter(|x| !x.is_empty()) {
                        if o == "f" {
                            c.ops.push(Op::F)
                        } else if let Some(n) = o.strip_prefix('w') {
                            c.ops.push(Op::W(n.parse().map_err(|_| "op")?))
                        } else {
                            return Err(format!("bad op {}", o));
                        }
                    }
                }
                "fail" => c.fail = v.chars().map(|ch| ch == '1').collect(),
                "" => {}
                _ => return Err(format!("bad key {}", k)),
            }
        }
        Ok(c)
    }
}

struct Rec {
    log: Rc<RefCell<Vec<(Vec<u8>, bool)>>>,
    fail: Vec<bool>,
}

impl Write for Rec {
    fn write(&mut self, buf: &[u8]) -> io::Result<usize> {
        let mut log = self.log.borrow_mut();
        let idx = log.len();
        let fail = self.fail.get(idx).copied().unwrap_or(false);
        log.push((buf.to_vec(), !fail));
        if fail {
            Err(io::Error::new(io::ErrorKind::ConnectionRefused, "scripted failure"))
        } else {
            Ok(buf.len())
        }
    }
    fn flush(&mut self) -> io::Result<()> {
        Ok(())
    }
}

fn metric(i: usize, len: usize) -> Vec<u8> {
    vec![b'A' + (i % 26) as u8; len]
}

fn concat(ms: &[Vec<u8>], end: &[u8]) -> Vec<u8> {
    let mut v = vec![];
    for m in ms {
        v.extend_from_slice(m);
        v.extend_from_slice(end);
    }
    v
}

/// every datagram handed to the socket (accepted or refused) must be whole pending metrics with
/// terminators within capacity, or the oversized metric of the current emit alone
fn shape_ok(payload: &[u8], pending: &[Vec<u8>], cur: Option<&Vec<u8>>, end: &[u8], cap: usize) -> bool {
    if let Some(m) = cur {
        if m.len() + end.len() > cap && payload == &m[..] {
            return true;
        }
    }
    let mut all: Vec<Vec<u8>> = pending.to_vec();
    if let Some(m) = cur {
        if m.len() + end.len() <= cap {
            all.push(m.clone());
        }
    }
    for k in 1..=all.len() {
        let c = concat(&all[..k], end);
        if c.len() <= cap && c == payload {
            return true;
        }
    }
    false
}

pub fn run_case(s: &str) -> Result<Vec<(String, String)>, String> {
    let c = Case::parse(s)?;
    Ok(check(&c))
}

pub fn check(c: &Case) -> Vec<(String, String)> {
    // C20: no call panics (the crate is built with overflow checks, so an arithmetic overflow is a panic)
    let prev = std::panic::take_hook();
    let msg = std::sync::Arc::new(std::sync::Mutex::new(String::new()));
    let m2 = msg.clone();
    std::panic::set_hook(Box::new(move |info| { *m2.lock().unwrap() = info.to_string(); }));
    let r = std::panic::catch_unwind(std::panic::AssertUnwindSafe(|| check_inner(c)));
    std::panic::set_hook(prev);
    match r {
        Ok(f) => f,
        Err(_) => vec![("C20".to_string(), format!("a write/flush/drop of the line writer panicked: {}", msg.lock().unwrap().replace('\n', " ")))],
    }
}

fn check_inner(c: &Case) -> Vec<(String, String)> {
    let mut fails: Vec<(String, String)> = vec![];
    // a framing/conservation failure in a history that already contains a socket failure is also a C07 violation
    let faulted = std::cell::Cell::new(false);
    let mut f = |p: &str, m: String| {
        fails.push((p.to_string(), m.clone()));
        if faulted.get() && (p == "C05" || p == "C06") {
            fails.push(("C07".to_string(), format!("(after a failed socket write) {}", m)));
        }
    };
    let mut rejected: Vec<u8> = vec![]; // marker bytes of metrics whose emit returned Err
    if c.end.is_empty() {
        return vec![];
    }
    let log = Rc::new(RefCell::new(vec![]));
    let rec = Rec { log: log.clone(), fail: c.fail.clone() };
    let end_str = match std::str::from_utf8(&c.end) {
        Ok(s) => s.to_string(),
        Err(_) => return vec![],
    };
    let mut w = MultiLineWriter::with_ending(rec, c.cap, &end_str);
    let mut pending: Vec<Vec<u8>> = vec![];
    let pend_bytes = |p: &Vec<Vec<u8>>| p.iter().map(|m| m.len() + c.end.len()).sum::<usize>();
    for (i, op) in c.ops.iter().enumerate() {
        let before = log.borrow().len();
        match op {
            Op::W(len) => {
                let m = metric(i, *len);
                if m.is_empty() && c.end.len() == c.cap {
                    continue; // outside the stated envelope
                }
                let r = w.write(&m);
                let att: Vec<(Vec<u8>, bool)> = log.borrow()[before..].to_vec();
                let required = m.len() + c.end.len();
                if r.is_err() && !m.is_empty() { rejected.push(m[0]); }
                if att.iter().any(|a| !a.1) { faulted.set(true); }
                for (p, _) in att.iter() {
                    if r.is_ok() || p != &m { if let Some(b) = p.iter().find(|b| rejected.contains(b) && !(r.is_err() && **b == m[0] && false)) {
                        if !(r.is_err() && !m.is_empty() && *b == m[0]) {
                            f("C07", format!("op {}: a metric whose emit returned an error ('{}') is being written later", i, *b as char));
                        }
                    } }
                }
                for (p, _) in att.iter() {
                    if !shape_ok(p, &pending, Some(&m), &c.end, c.cap) {
                        f("C05", format!("op {} (write {}): datagram {:?} is neither whole pending metrics within capacity nor the oversized metric alone", i, len, String::from_utf8_lossy(p)));
                    }
                }
                match &r {
                    Ok(n) if *n != m.len() => f("C06", format!("op {}: Ok({}) but the metric has {} bytes", i, n, m.len())),
                    Err(e) if e.kind() != io::ErrorKind::ConnectionRefused => f("C07", format!("op {}: error {:?} is not the socket's error", i, e.kind())),
                    _ => {}
                }
                if r.is_err() && !att.iter().any(|a| !a.1) {
                    f("C07", format!("op {}: emit returned an error although no socket write failed", i));
                }
                if required > c.cap {
                    if att.len() != 1 || att[0].0 != m {
                        f("C19", format!("op {}: oversized metric must cause exactly one send carrying only itself, saw {} attempt(s)", i, att.len()));
                    }
                    if att.len() == 1 && att[0].0 == m {
                        if att[0].1 != r.is_ok() {
                            f(if r.is_ok() { "C06" } else { "C07" }, format!("op {}: oversized metric: socket accepted={} but emit returned {:?}", i, att[0].1, r.as_ref().map_err(|e| e.kind())));
                        }
                    } else if r.is_ok() && !att.iter().any(|a| a.1 && a.0 == m) {
                        f("C06", format!("op {}: oversized metric acknowledged but not written during its own emit", i));
                    }
                    // buffered data must be untouched
                    for a in att.iter() {
                        if a.1 && a.0 != m {
                            // something else left: account for it
                            let k = (1..=pending.len()).find(|k| concat(&pending[..*k], &c.end) == a.0);
                            if let Some(k) = k { pending.drain(..k); }
                        }
                    }
                } else {
                    let room = c.cap - pend_bytes(&pending).min(c.cap);
                    if required < room {
                        if !att.is_empty() {
                            f("C19", format!("op {}: metric of {} bytes fits with room to spare ({} free) but {} socket write(s) happened", i, len, room, att.len()));
                        }
                    } else if required > room {
                        if att.is_empty() {
                            f("C05", format!("op {}: metric does not fit ({} free) yet nothing was flushed", i, room));
                        } else if att[0].0 != concat(&pending, &c.end) {
                            f("C19", format!("op {}: no room: the first datagram must be exactly the old buffer, alone", i));
                        }
                    }
                    // conservation bookkeeping
                    let mut accepted_now = r.is_ok();
                    for a in att.iter() {
                        if !a.1 { continue; }
                        let mut all = pending.clone();
                        if accepted_now { all.push(m.clone()); }
                        match (1..=all.len()).find(|k| concat(&all[..*k], &c.end) == a.0) {
                            Some(k) => {
                                if k > pending.len() { accepted_now = false; pending.clear(); } else { pending.drain(..k); }
                            }
                            None => f("C06", format!("op {}: accepted datagram {:?} is not the in-order prefix of the metrics accepted so far", i, String::from_utf8_lossy(&a.0))),
                        }
                    }
                    if r.is_ok() {
                        if accepted_now { pending.push(m.clone()); }
                    } else {
                        // C07: everything accepted earlier must still be pending (checked at the end by conservation)
                    }
                    if r.is_ok() && att.iter().any(|a| !a.1) && !att.iter().any(|a| a.1) {
                        f("C07", format!("op {}: a socket write failed, nothing succeeded, yet emit returned Ok", i));
                    }
                }
            }
            Op::F => {
                let r = w.flush();
                let att: Vec<(Vec<u8>, bool)> = log.borrow()[before..].to_vec();
                if att.iter().any(|a| !a.1) { faulted.set(true); }
                for (p, _) in att.iter() {
                    if let Some(b) = p.iter().find(|b| rejected.contains(b)) {
                        f("C07", format!("op {} (flush): a metric whose emit returned an error ('{}') is being written", i, *b as char));
                    }
                }
                for (p, _) in att.iter() {
                    if !shape_ok(p, &pending, None, &c.end, c.cap) {
                        f("C05", format!("op {} (flush): datagram {:?} is not whole pending metrics within capacity", i, String::from_utf8_lossy(p)));
                    }
                }
                if pending.is_empty() {
                    if !att.is_empty() {
                        f("C19", format!("op {}: flush of an empty buffer made {} socket write(s)", i, att.len()));
                    }
                    if r.is_err() {
                        f("C07", format!("op {}: flush of an empty buffer returned an error", i));
                    }
                } else {
                    let expect = concat(&pending, &c.end);
                    let ok = att.iter().any(|a| a.1 && a.0 == expect);
                    if r.is_ok() && !ok {
                        f("C06", format!("op {}: flush returned Ok but the pending metrics {:?} were not written", i, String::from_utf8_lossy(&expect)));
                    }
                    if r.is_err() && ok {
                        f("C07", format!("op {}: flush returned an error although the datagram was accepted", i));
                    }
                    if r.is_err() && !att.iter().any(|a| !a.1) {
                        f("C07", format!("op {}: flush returned an error although no socket write failed", i));
                    }
                    if att.iter().filter(|a| a.1 && a.0 == expect).count() > 1 {
                        f("C07", format!("op {}: pending metrics written twice", i));
                    }
                    if ok { pending.clear(); }
                }
            }
        }
    }
    // drop: whatever is pending must leave as one datagram (if the socket accepts it)
    let before = log.borrow().len();
    drop(w);
    let att: Vec<(Vec<u8>, bool)> = log.borrow()[before..].to_vec();
    for (p, _) in att.iter() {
        if let Some(b) = p.iter().find(|b| rejected.contains(b)) {
            f("C07", format!("drop: a metric whose emit returned an error ('{}') is being written", *b as char));
        }
        if !shape_ok(p, &pending, None, &c.end, c.cap) {
            f("C05", format!("drop: datagram {:?} is not whole pending metrics within capacity", String::from_utf8_lossy(p)));
        }
    }
    if !pending.is_empty() {
        let expect = concat(&pending, &c.end);
        if att.is_empty() {
            f("C06", format!("drop: pending metrics {:?} were never written", String::from_utf8_lossy(&expect)));
        } else if att.iter().all(|a| a.0 != expect) {
            f("C06", format!("drop: pending metrics {:?} were not written as such", String::from_utf8_lossy(&expect)));
        }
    } else if !att.is_empty() {
        f("C06", format!("drop: {} datagram(s) written although nothing was pending (duplicate or stray data)", att.len()));
    }
    fails
}

pub fn search(prop: &str, seed: u64, budget: u64) -> Option<(String, Vec<(String, String)>)> {
    let mut rng = Rng::new(seed);
    let ends: [&[u8]; 3] = [b"\n", b"\r\n", b"\r\n\t"];
    for _ in 0..budget {
        // mostly tiny capacities (every boundary is reached within a few operations); one case in 16
        // uses a capacity beyond the standard library's default buffer size
        let large = rng.below(16) == 0;
        let cap = if large { 8192 + rng.below(3000) as usize } else { rng.below(14) as usize };
        let end = ends[rng.below(3) as usize].to_vec();
        let nops = 1 + rng.below(6) as usize;
        let mut ops = vec![];
        for _ in 0..nops {
            if rng.below(4) == 0 {
                ops.push(Op::F)
            } else if large {
                ops.push(Op::W(rng.below(cap as u64 / 2) as usize))
            } else {
                ops.push(Op::W(rng.below(cap as u64 + 3) as usize))
            }
        }
        let nf = 8;
        let faulty = rng.below(2) == 0;
        let fail: Vec<bool> = (0..nf).map(|_| faulty && rng.below(3) == 0).collect();
        let c = Case { cap, end, ops, fail };
        let fails = check(&c);
        if fails.iter().any(|(p, _)| p == prop) {
            let mine: Vec<(String, String)> = fails.into_iter().filter(|(p, _)| p == prop).collect();
            return Some((c.to_string(), mine));
        }
    }
    None
}
