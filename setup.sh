#!/bin/sh
# Offline setup: pre-build the replay crate (path dependency on /repo) so that checks start warm.
set -e
cd "$(dirname "$0")"
mkdir -p evidence/replay
cp /repo/Cargo.lock replay/Cargo.lock 2>/dev/null || true
(cd replay && CARGO_NET_OFFLINE=true cargo build --offline --quiet) || echo "setup: replay crate build failed (checks rebuild it on demand)"
exit 0
