// Pure Verus lemma for C14: the four socket counters are sums of per-attempt contributions, whatever
// the order in which the contributions were added. The step relation IS the contract of
// SocketStats::update established by the Kani harnesses c14_update_ok / c14_update_err on the real
// function (its transcription is part of the trusted base). No code is extracted here.
use vstd::prelude::*;
verus! {
pub mod stats {
use vstd::prelude::*;

pub struct Counters { pub bytes_sent: int, pub packets_sent: int, pub bytes_dropped: int, pub packets_dropped: int }

/// one datagram send attempt: the socket accepted `w` bytes, or refused a datagram of `len` bytes
pub enum Attempt { Accepted(int), Refused(int) }

/// contract of SocketStats::update (c14_update_ok, c14_update_err)
pub open spec fn apply(c: Counters, a: Attempt) -> Counters {
    match a {
        Attempt::Accepted(w) => Counters { bytes_sent: c.bytes_sent + w, packets_sent: c.packets_sent + 1, ..c },
        Attempt::Refused(len) => Counters { bytes_dropped: c.bytes_dropped + len, packets_dropped: c.packets_dropped + 1, ..c },
    }
}
pub open spec fn run(c: Counters, attempts: Seq<Attempt>) -> Counters
    decreases attempts.len()
{
    if attempts.len() == 0 { c } else { apply(run(c, attempts.drop_last()), attempts.last()) }
}
pub open spec fn zero() -> Counters { Counters { bytes_sent: 0, packets_sent: 0, bytes_dropped: 0, packets_dropped: 0 } }

pub open spec fn accepted_bytes(a: Seq<Attempt>) -> int decreases a.len() {
    if a.len() == 0 { 0 } else { accepted_bytes(a.drop_last()) + (match a.last() { Attempt::Accepted(w) => w, _ => 0 }) }
}
pub open spec fn refused_bytes(a: Seq<Attempt>) -> int decreases a.len() {
    if a.len() == 0 { 0 } else { refused_bytes(a.drop_last()) + (match a.last() { Attempt::Refused(l) => l, _ => 0 }) }
}
pub open spec fn accepted_count(a: Seq<Attempt>) -> int decreases a.len() {
    if a.len() == 0 { 0 } else { accepted_count(a.drop_last()) + (if a.last() is Accepted { 1int } else { 0int }) }
}

/// C14: at any quiescent moment packets_sent + packets_dropped equals the number of send attempts,
/// bytes_sent is the total size the socket accepted, bytes_dropped the total size it refused
pub proof fn theorem_counters_add_up(a: Seq<Attempt>)   // [C14] the counters are exactly the sums over the send attempts made so far
    ensures
        run(zero(), a).packets_sent + run(zero(), a).packets_dropped == a.len(),
        run(zero(), a).packets_sent == accepted_count(a),
        run(zero(), a).bytes_sent == accepted_bytes(a),
        run(zero(), a).bytes_dropped == refused_bytes(a),
    decreases a.len()
{
    if a.len() > 0 { theorem_counters_add_up(a.drop_last()); }
}

/// C14 under concurrency: contributions are added with atomic fetch_add, and additions commute: two
/// attempts applied in either order give the same counters, so the totals do not depend on the
/// interleaving of concurrent emitters
pub proof fn theorem_order_irrelevant(c: Counters, x: Attempt, y: Attempt)   // [C14] the figures are exact under concurrent emitters: per-attempt contributions commute
    ensures apply(apply(c, x), y) == apply(apply(c, y), x)
{
}

//@PROBE stats_not_vacuous
proof fn probe_stats_not_vacuous(a: Seq<Attempt>)
    requires a.len() == 3
    ensures run(zero(), a).packets_sent == 0
{
    theorem_counters_add_up(a);
}
} // mod stats
}
fn main() {}
