// Verus template for cadence-macros/src/macros.rs  (property C17)
// The eight macro_rules! items are copied VERBATIM from /repo on every run (//@MACROS); rustc expands
// them inside the contract-carrying functions below. The client API they expand to is a contract-only
// stub: its contracts are the ones proved for the real functions in C01/C03/C04.
use vstd::prelude::*;

//@MACROS cadence-macros/src/macros.rs

verus! {
pub mod cadence { pub mod prelude { } }

/// an argument expression that may be evaluated at most once
pub struct Once { pub id: int, pub used: bool }
pub struct Arg { pub id: int }
impl Once {
    pub fn take(&mut self) -> (r: Arg)
        requires !old(self).used,            // [C17] each macro argument is evaluated exactly once
        ensures final(self).used, final(self).id == old(self).id, r.id == old(self).id,
    { self.used = true; Arg { id: self.id } }
}

pub struct Client { pub id: int }
pub struct Builder { pub method: int, pub key: int, pub val: int, pub tags: Seq<(int, int)>, pub client: int }
pub struct GlobalResult { pub ok: bool, pub client: Client }

pub uninterp spec fn global_set() -> bool;
pub uninterp spec fn global_id() -> int;
/// strict mode: `unwrap` on an unset global is a verification error (proves "no panic when set");
/// lax mode: `unwrap` returns only if the global is set (proves "cannot get past it when unset")
pub uninterp spec fn strict_mode() -> bool;
pub uninterp spec fn expected() -> Builder;
pub open spec fn same(a: Builder, b: Builder) -> bool {
    a.method == b.method && a.key == b.key && a.val == b.val && a.tags =~= b.tags && a.client == b.client
}

// ---- TRUSTED STUB of cadence_macros::get_global_default (its contract is C18)
#[verifier::external_body]
pub fn get_global_default() -> (r: GlobalResult)
    ensures r.ok == global_set(), r.ok ==> r.client.id == global_id(),
{ unimplemented!() }

impl GlobalResult {
    // ---- TRUSTED STUB of Result::unwrap: panics (does not return) unless ok
    #[verifier::external_body]
    pub fn unwrap(self) -> (c: Client)
        requires strict_mode() ==> self.ok,      // [C17] the macro does not panic when a global client is set
        ensures self.ok, c == self.client,
    { unimplemented!() }
}

impl Client {
    // ---- TRUSTED STUB of StatsdClient::count_with_tags (contract: C01/C04 structure triples)
    #[verifier::external_body]
    pub fn count_with_tags(&self, key: Arg, val: Arg) -> (b: Builder)
        requires global_set(),                       // [C17] nothing is built or sent before the global client has been obtained
        ensures b.method == 1, b.key == key.id, b.val == val.id, b.tags.len() == 0, b.client == self.id,
    { unimplemented!() }
    // ---- TRUSTED STUB of StatsdClient::time_with_tags (contract: C01/C04 structure triples)
    #[verifier::external_body]
    pub fn time_with_tags(&self, key: Arg, val: Arg) -> (b: Builder)
        requires global_set(),                       // [C17] nothing is built or sent before the global client has been obtained
        ensures b.method == 2, b.key == key.id, b.val == val.id, b.tags.len() == 0, b.client == self.id,
    { unimplemented!() }
    // ---- TRUSTED STUB of StatsdClient::gauge_with_tags (contract: C01/C04 structure triples)
    #[verifier::external_body]
    pub fn gauge_with_tags(&self, key: Arg, val: Arg) -> (b: Builder)
        requires global_set(),                       // [C17] nothing is built or sent before the global client has been obtained
        ensures b.method == 3, b.key == key.id, b.val == val.id, b.tags.len() == 0, b.client == self.id,
    { unimplemented!() }
    // ---- TRUSTED STUB of StatsdClient::meter_with_tags (contract: C01/C04 structure triples)
    #[verifier::external_body]
    pub fn meter_with_tags(&self, key: Arg, val: Arg) -> (b: Builder)
        requires global_set(),                       // [C17] nothing is built or sent before the global client has been obtained
        ensures b.method == 4, b.key == key.id, b.val == val.id, b.tags.len() == 0, b.client == self.id,
    { unimplemented!() }
    // ---- TRUSTED STUB of StatsdClient::histogram_with_tags (contract: C01/C04 structure triples)
    #[verifier::external_body]
    pub fn histogram_with_tags(&self, key: Arg, val: Arg) -> (b: Builder)
        requires global_set(),                       // [C17] nothing is built or sent before the global client has been obtained
        ensures b.method == 5, b.key == key.id, b.val == val.id, b.tags.len() == 0, b.client == self.id,
    { unimplemented!() }
    // ---- TRUSTED STUB of StatsdClient::distribution_with_tags (contract: C01/C04 structure triples)
    #[verifier::external_body]
    pub fn distribution_with_tags(&self, key: Arg, val: Arg) -> (b: Builder)
        requires global_set(),                       // [C17] nothing is built or sent before the global client has been obtained
        ensures b.method == 6, b.key == key.id, b.val == val.id, b.tags.len() == 0, b.client == self.id,
    { unimplemented!() }
    // ---- TRUSTED STUB of StatsdClient::set_with_tags (contract: C01/C04 structure triples)
    #[verifier::external_body]
    pub fn set_with_tags(&self, key: Arg, val: Arg) -> (b: Builder)
        requires global_set(),                       // [C17] nothing is built or sent before the global client has been obtained
        ensures b.method == 7, b.key == key.id, b.val == val.id, b.tags.len() == 0, b.client == self.id,
    { unimplemented!() }
}

impl Builder {
    // ---- TRUSTED STUB of MetricBuilder::with_tag (contract: C04)
    #[verifier::external_body]
    pub fn with_tag(self, k: Arg, v: Arg) -> (b: Builder)
        ensures b == (Builder { tags: self.tags.push((k.id, v.id)), ..self }),
    { unimplemented!() }
    // ---- TRUSTED STUB of MetricBuilder::send, the quiet form (contract: C03)
    #[verifier::external_body]
    pub fn send(self)
        requires same(self, expected()),            // [C17] what is sent is the tagged builder of the right kind on the global client, with the tags in the order written, in a single quiet send
    { unimplemented!() }
    // ---- any other way of sending is not the quiet form
    #[verifier::external_body]
    pub fn try_send(self) -> (r: Result<(), ()>)
        requires false,                             // [C17] the macro must use the quiet send
    { unimplemented!() }
}

pub mod uses {
use vstd::prelude::*;
use super::*;
// [C17] statsd_count! with 0 tag(s) == count_with_tags(key, val).send() on the global client
fn statsd_count_0(k: &mut Once, v: &mut Once)
    requires strict_mode(), global_set(), !old(k).used && !old(v).used,
        expected() == (Builder { method: 1, key: old(k).id, val: old(v).id, tags: Seq::<(int, int)>::empty(), client: global_id() }),
{
    statsd_count!(k.take(), v.take());
}
// [C17] statsd_count! with 1 tag(s) == count_with_tags(key, val).with_tag(..).send() on the global client
fn statsd_count_1(k: &mut Once, v: &mut Once, a0: &mut Once, b0: &mut Once)
    requires strict_mode(), global_set(), !old(k).used && !old(v).used && !old(a0).used && !old(b0).used,
        expected() == (Builder { method: 1, key: old(k).id, val: old(v).id, tags: seq![(old(a0).id, old(b0).id)], client: global_id() }),
{
    statsd_count!(k.take(), v.take(), a0.take() => b0.take());
}
// [C17] statsd_count! with 2 tag(s) == count_with_tags(key, val).with_tag(..).with_tag(..).send() on the global client
fn statsd_count_2(k: &mut Once, v: &mut Once, a0: &mut Once, b0: &mut Once, a1: &mut Once, b1: &mut Once)
    requires strict_mode(), global_set(), !old(k).used && !old(v).used && !old(a0).used && !old(b0).used && !old(a1).used && !old(b1).used,
        expected() == (Builder { method: 1, key: old(k).id, val: old(v).id, tags: seq![(old(a0).id, old(b0).id), (old(a1).id, old(b1).id)], client: global_id() }),
{
    statsd_count!(k.take(), v.take(), a0.take() => b0.take(), a1.take() => b1.take());
}
// [C17] statsd_count! with 3 tag(s) == count_with_tags(key, val).with_tag(..).with_tag(..).with_tag(..).send() on the global client
fn statsd_count_3(k: &mut Once, v: &mut Once, a0: &mut Once, b0: &mut Once, a1: &mut Once, b1: &mut Once, a2: &mut Once, b2: &mut Once)
    requires strict_mode(), global_set(), !old(k).used && !old(v).used && !old(a0).used && !old(b0).used && !old(a1).used && !old(b1).used && !old(a2).used && !old(b2).used,
        expected() == (Builder { method: 1, key: old(k).id, val: old(v).id, tags: seq![(old(a0).id, old(b0).id), (old(a1).id, old(b1).id), (old(a2).id, old(b2).id)], client: global_id() }),
{
    statsd_count!(k.take(), v.take(), a0.take() => b0.take(), a1.take() => b1.take(), a2.take() => b2.take());
}
// [C17] statsd_count! panics (never returns, sends nothing) when no global client has been set
fn statsd_count_unset(k: &mut Once, v: &mut Once, a0: &mut Once, b0: &mut Once)
    requires !strict_mode(), !global_set(), !old(k).used && !old(v).used && !old(a0).used && !old(b0).used,
    ensures false,
{
    statsd_count!(k.take(), v.take(), a0.take() => b0.take());
}
// [C17] statsd_time! with 0 tag(s) == time_with_tags(key, val).send() on the global client
fn statsd_time_0(k: &mut Once, v: &mut Once)
    requires strict_mode(), global_set(), !old(k).used && !old(v).used,
        expected() == (Builder { method: 2, key: old(k).id, val: old(v).id, tags: Seq::<(int, int)>::empty(), client: global_id() }),
{
    statsd_time!(k.take(), v.take());
}
// [C17] statsd_time! with 1 tag(s) == time_with_tags(key, val).with_tag(..).send() on the global client
fn statsd_time_1(k: &mut Once, v: &mut Once, a0: &mut Once, b0: &mut Once)
    requires strict_mode(), global_set(), !old(k).used && !old(v).used && !old(a0).used && !old(b0).used,
        expected() == (Builder { method: 2, key: old(k).id, val: old(v).id, tags: seq![(old(a0).id, old(b0).id)], client: global_id() }),
{
    statsd_time!(k.take(), v.take(), a0.take() => b0.take());
}
// [C17] statsd_time! with 2 tag(s) == time_with_tags(key, val).with_tag(..).with_tag(..).send() on the global client
fn statsd_time_2(k: &mut Once, v: &mut Once, a0: &mut Once, b0: &mut Once, a1: &mut Once, b1: &mut Once)
    requires strict_mode(), global_set(), !old(k).used && !old(v).used && !old(a0).used && !old(b0).used && !old(a1).used && !old(b1).used,
        expected() == (Builder { method: 2, key: old(k).id, val: old(v).id, tags: seq![(old(a0).id, old(b0).id), (old(a1).id, old(b1).id)], client: global_id() }),
{
    statsd_time!(k.take(), v.take(), a0.take() => b0.take(), a1.take() => b1.take());
}
// [C17] statsd_time! with 3 tag(s) == time_with_tags(key, val).with_tag(..).with_tag(..).with_tag(..).send() on the global client
fn statsd_time_3(k: &mut Once, v: &mut Once, a0: &mut Once, b0: &mut Once, a1: &mut Once, b1: &mut Once, a2: &mut Once, b2: &mut Once)
    requires strict_mode(), global_set(), !old(k).used && !old(v).used && !old(a0).used && !old(b0).used && !old(a1).used && !old(b1).used && !old(a2).used && !old(b2).used,
        expected() == (Builder { method: 2, key: old(k).id, val: old(v).id, tags: seq![(old(a0).id, old(b0).id), (old(a1).id, old(b1).id), (old(a2).id, old(b2).id)], client: global_id() }),
{
    statsd_time!(k.take(), v.take(), a0.take() => b0.take(), a1.take() => b1.take(), a2.take() => b2.take());
}
// [C17] statsd_time! panics (never returns, sends nothing) when no global client has been set
fn statsd_time_unset(k: &mut Once, v: &mut Once, a0: &mut Once, b0: &mut Once)
    requires !strict_mode(), !global_set(), !old(k).used && !old(v).used && !old(a0).used && !old(b0).used,
    ensures false,
{
    statsd_time!(k.take(), v.take(), a0.take() => b0.take());
}
// [C17] statsd_gauge! with 0 tag(s) == gauge_with_tags(key, val).send() on the global client
fn statsd_gauge_0(k: &mut Once, v: &mut Once)
    requires strict_mode(), global_set(), !old(k).used && !old(v).used,
        expected() == (Builder { method: 3, key: old(k).id, val: old(v).id, tags: Seq::<(int, int)>::empty(), client: global_id() }),
{
    statsd_gauge!(k.take(), v.take());
}
// [C17] statsd_gauge! with 1 tag(s) == gauge_with_tags(key, val).with_tag(..).send() on the global client
fn statsd_gauge_1(k: &mut Once, v: &mut Once, a0: &mut Once, b0: &mut Once)
    requires strict_mode(), global_set(), !old(k).used && !old(v).used && !old(a0).used && !old(b0).used,
        expected() == (Builder { method: 3, key: old(k).id, val: old(v).id, tags: seq![(old(a0).id, old(b0).id)], client: global_id() }),
{
    statsd_gauge!(k.take(), v.take(), a0.take() => b0.take());
}
// [C17] statsd_gauge! with 2 tag(s) == gauge_with_tags(key, val).with_tag(..).with_tag(..).send() on the global client
fn statsd_gauge_2(k: &mut Once, v: &mut Once, a0: &mut Once, b0: &mut Once, a1: &mut Once, b1: &mut Once)
    requires strict_mode(), global_set(), !old(k).used && !old(v).used && !old(a0).used && !old(b0).used && !old(a1).used && !old(b1).used,
        expected() == (Builder { method: 3, key: old(k).id, val: old(v).id, tags: seq![(old(a0).id, old(b0).id), (old(a1).id, old(b1).id)], client: global_id() }),
{
    statsd_gauge!(k.take(), v.take(), a0.take() => b0.take(), a1.take() => b1.take());
}
// [C17] statsd_gauge! with 3 tag(s) == gauge_with_tags(key, val).with_tag(..).with_tag(..).with_tag(..).send() on the global client
fn statsd_gauge_3(k: &mut Once, v: &mut Once, a0: &mut Once, b0: &mut Once, a1: &mut Once, b1: &mut Once, a2: &mut Once, b2: &mut Once)
    requires strict_mode(), global_set(), !old(k).used && !old(v).used && !old(a0).used && !old(b0).used && !old(a1).used && !old(b1).used && !old(a2).used && !old(b2).used,
        expected() == (Builder { method: 3, key: old(k).id, val: old(v).id, tags: seq![(old(a0).id, old(b0).id), (old(a1).id, old(b1).id), (old(a2).id, old(b2).id)], client: global_id() }),
{
    statsd_gauge!(k.take(), v.take(), a0.take() => b0.take(), a1.take() => b1.take(), a2.take() => b2.take());
}
// [C17] statsd_gauge! panics (never returns, sends nothing) when no global client has been set
fn statsd_gauge_unset(k: &mut Once, v: &mut Once, a0: &mut Once, b0: &mut Once)
    requires !strict_mode(), !global_set(), !old(k).used && !old(v).used && !old(a0).used && !old(b0).used,
    ensures false,
{
    statsd_gauge!(k.take(), v.take(), a0.take() => b0.take());
}
// [C17] statsd_meter! with 0 tag(s) == meter_with_tags(key, val).send() on the global client
fn statsd_meter_0(k: &mut Once, v: &mut Once)
    requires strict_mode(), global_set(), !old(k).used && !old(v).used,
        expected() == (Builder { method: 4, key: old(k).id, val: old(v).id, tags: Seq::<(int, int)>::empty(), client: global_id() }),
{
    statsd_meter!(k.take(), v.take());
}
// [C17] statsd_meter! with 1 tag(s) == meter_with_tags(key, val).with_tag(..).send() on the global client
fn statsd_meter_1(k: &mut Once, v: &mut Once, a0: &mut Once, b0: &mut Once)
    requires strict_mode(), global_set(), !old(k).used && !old(v).used && !old(a0).used && !old(b0).used,
        expected() == (Builder { method: 4, key: old(k).id, val: old(v).id, tags: seq![(old(a0).id, old(b0).id)], client: global_id() }),
{
    statsd_meter!(k.take(), v.take(), a0.take() => b0.take());
}
// [C17] statsd_meter! with 2 tag(s) == meter_with_tags(key, val).with_tag(..).with_tag(..).send() on the global client
fn statsd_meter_2(k: &mut Once, v: &mut Once, a0: &mut Once, b0: &mut Once, a1: &mut Once, b1: &mut Once)
    requires strict_mode(), global_set(), !old(k).used && !old(v).used && !old(a0).used && !old(b0).used && !old(a1).used && !old(b1).used,
        expected() == (Builder { method: 4, key: old(k).id, val: old(v).id, tags: seq![(old(a0).id, old(b0).id), (old(a1).id, old(b1).id)], client: global_id() }),
{
    statsd_meter!(k.take(), v.take(), a0.take() => b0.take(), a1.take() => b1.take());
}
// [C17] statsd_meter! with 3 tag(s) == meter_with_tags(key, val).with_tag(..).with_tag(..).with_tag(..).send() on the global client
fn statsd_meter_3(k: &mut Once, v: &mut Once, a0: &mut Once, b0: &mut Once, a1: &mut Once, b1: &mut Once, a2: &mut Once, b2: &mut Once)
    requires strict_mode(), global_set(), !old(k).used && !old(v).used && !old(a0).used && !old(b0).used && !old(a1).used && !old(b1).used && !old(a2).used && !old(b2).used,
        expected() == (Builder { method: 4, key: old(k).id, val: old(v).id, tags: seq![(old(a0).id, old(b0).id), (old(a1).id, old(b1).id), (old(a2).id, old(b2).id)], client: global_id() }),
{
    statsd_meter!(k.take(), v.take(), a0.take() => b0.take(), a1.take() => b1.take(), a2.take() => b2.take());
}
// [C17] statsd_meter! panics (never returns, sends nothing) when no global client has been set
fn statsd_meter_unset(k: &mut Once, v: &mut Once, a0: &mut Once, b0: &mut Once)
    requires !strict_mode(), !global_set(), !old(k).used && !old(v).used && !old(a0).used && !old(b0).used,
    ensures false,
{
    statsd_meter!(k.take(), v.take(), a0.take() => b0.take());
}
// [C17] statsd_histogram! with 0 tag(s) == histogram_with_tags(key, val).send() on the global client
fn statsd_histogram_0(k: &mut Once, v: &mut Once)
    requires strict_mode(), global_set(), !old(k).used && !old(v).used,
        expected() == (Builder { method: 5, key: old(k).id, val: old(v).id, tags: Seq::<(int, int)>::empty(), client: global_id() }),
{
    statsd_histogram!(k.take(), v.take());
}
// [C17] statsd_histogram! with 1 tag(s) == histogram_with_tags(key, val).with_tag(..).send() on the global client
fn statsd_histogram_1(k: &mut Once, v: &mut Once, a0: &mut Once, b0: &mut Once)
    requires strict_mode(), global_set(), !old(k).used && !old(v).used && !old(a0).used && !old(b0).used,
        expected() == (Builder { method: 5, key: old(k).id, val: old(v).id, tags: seq![(old(a0).id, old(b0).id)], client: global_id() }),
{
    statsd_histogram!(k.take(), v.take(), a0.take() => b0.take());
}
// [C17] statsd_histogram! with 2 tag(s) == histogram_with_tags(key, val).with_tag(..).with_tag(..).send() on the global client
fn statsd_histogram_2(k: &mut Once, v: &mut Once, a0: &mut Once, b0: &mut Once, a1: &mut Once, b1: &mut Once)
    requires strict_mode(), global_set(), !old(k).used && !old(v).used && !old(a0).used && !old(b0).used && !old(a1).used && !old(b1).used,
        expected() == (Builder { method: 5, key: old(k).id, val: old(v).id, tags: seq![(old(a0).id, old(b0).id), (old(a1).id, old(b1).id)], client: global_id() }),
{
    statsd_histogram!(k.take(), v.take(), a0.take() => b0.take(), a1.take() => b1.take());
}
// [C17] statsd_histogram! with 3 tag(s) == histogram_with_tags(key, val).with_tag(..).with_tag(..).with_tag(..).send() on the global client
fn statsd_histogram_3(k: &mut Once, v: &mut Once, a0: &mut Once, b0: &mut Once, a1: &mut Once, b1: &mut Once, a2: &mut Once, b2: &mut Once)
    requires strict_mode(), global_set(), !old(k).used && !old(v).used && !old(a0).used && !old(b0).used && !old(a1).used && !old(b1).used && !old(a2).used && !old(b2).used,
        expected() == (Builder { method: 5, key: old(k).id, val: old(v).id, tags: seq![(old(a0).id, old(b0).id), (old(a1).id, old(b1).id), (old(a2).id, old(b2).id)], client: global_id() }),
{
    statsd_histogram!(k.take(), v.take(), a0.take() => b0.take(), a1.take() => b1.take(), a2.take() => b2.take());
}
// [C17] statsd_histogram! panics (never returns, sends nothing) when no global client has been set
fn statsd_histogram_unset(k: &mut Once, v: &mut Once, a0: &mut Once, b0: &mut Once)
    requires !strict_mode(), !global_set(), !old(k).used && !old(v).used && !old(a0).used && !old(b0).used,
    ensures false,
{
    statsd_histogram!(k.take(), v.take(), a0.take() => b0.take());
}
// [C17] statsd_distribution! with 0 tag(s) == distribution_with_tags(key, val).send() on the global client
fn statsd_distribution_0(k: &mut Once, v: &mut Once)
    requires strict_mode(), global_set(), !old(k).used && !old(v).used,
        expected() == (Builder { method: 6, key: old(k).id, val: old(v).id, tags: Seq::<(int, int)>::empty(), client: global_id() }),
{
    statsd_distribution!(k.take(), v.take());
}
// [C17] statsd_distribution! with 1 tag(s) == distribution_with_tags(key, val).with_tag(..).send() on the global client
fn statsd_distribution_1(k: &mut Once, v: &mut Once, a0: &mut Once, b0: &mut Once)
    requires strict_mode(), global_set(), !old(k).used && !old(v).used && !old(a0).used && !old(b0).used,
        expected() == (Builder { method: 6, key: old(k).id, val: old(v).id, tags: seq![(old(a0).id, old(b0).id)], client: global_id() }),
{
    statsd_distribution!(k.take(), v.take(), a0.take() => b0.take());
}
// [C17] statsd_distribution! with 2 tag(s) == distribution_with_tags(key, val).with_tag(..).with_tag(..).send() on the global client
fn statsd_distribution_2(k: &mut Once, v: &mut Once, a0: &mut Once, b0: &mut Once, a1: &mut Once, b1: &mut Once)
    requires strict_mode(), global_set(), !old(k).used && !old(v).used && !old(a0).used && !old(b0).used && !old(a1).used && !old(b1).used,
        expected() == (Builder { method: 6, key: old(k).id, val: old(v).id, tags: seq![(old(a0).id, old(b0).id), (old(a1).id, old(b1).id)], client: global_id() }),
{
    statsd_distribution!(k.take(), v.take(), a0.take() => b0.take(), a1.take() => b1.take());
}
// [C17] statsd_distribution! with 3 tag(s) == distribution_with_tags(key, val).with_tag(..).with_tag(..).with_tag(..).send() on the global client
fn statsd_distribution_3(k: &mut Once, v: &mut Once, a0: &mut Once, b0: &mut Once, a1: &mut Once, b1: &mut Once, a2: &mut Once, b2: &mut Once)
    requires strict_mode(), global_set(), !old(k).used && !old(v).used && !old(a0).used && !old(b0).used && !old(a1).used && !old(b1).used && !old(a2).used && !old(b2).used,
        expected() == (Builder { method: 6, key: old(k).id, val: old(v).id, tags: seq![(old(a0).id, old(b0).id), (old(a1).id, old(b1).id), (old(a2).id, old(b2).id)], client: global_id() }),
{
    statsd_distribution!(k.take(), v.take(), a0.take() => b0.take(), a1.take() => b1.take(), a2.take() => b2.take());
}
// [C17] statsd_distribution! panics (never returns, sends nothing) when no global client has been set
fn statsd_distribution_unset(k: &mut Once, v: &mut Once, a0: &mut Once, b0: &mut Once)
    requires !strict_mode(), !global_set(), !old(k).used && !old(v).used && !old(a0).used && !old(b0).used,
    ensures false,
{
    statsd_distribution!(k.take(), v.take(), a0.take() => b0.take());
}
// [C17] statsd_set! with 0 tag(s) == set_with_tags(key, val).send() on the global client
fn statsd_set_0(k: &mut Once, v: &mut Once)
    requires strict_mode(), global_set(), !old(k).used && !old(v).used,
        expected() == (Builder { method: 7, key: old(k).id, val: old(v).id, tags: Seq::<(int, int)>::empty(), client: global_id() }),
{
    statsd_set!(k.take(), v.take());
}
// [C17] statsd_set! with 1 tag(s) == set_with_tags(key, val).with_tag(..).send() on the global client
fn statsd_set_1(k: &mut Once, v: &mut Once, a0: &mut Once, b0: &mut Once)
    requires strict_mode(), global_set(), !old(k).used && !old(v).used && !old(a0).used && !old(b0).used,
        expected() == (Builder { method: 7, key: old(k).id, val: old(v).id, tags: seq![(old(a0).id, old(b0).id)], client: global_id() }),
{
    statsd_set!(k.take(), v.take(), a0.take() => b0.take());
}
// [C17] statsd_set! with 2 tag(s) == set_with_tags(key, val).with_tag(..).with_tag(..).send() on the global client
fn statsd_set_2(k: &mut Once, v: &mut Once, a0: &mut Once, b0: &mut Once, a1: &mut Once, b1: &mut Once)
    requires strict_mode(), global_set(), !old(k).used && !old(v).used && !old(a0).used && !old(b0).used && !old(a1).used && !old(b1).used,
        expected() == (Builder { method: 7, key: old(k).id, val: old(v).id, tags: seq![(old(a0).id, old(b0).id), (old(a1).id, old(b1).id)], client: global_id() }),
{
    statsd_set!(k.take(), v.take(), a0.take() => b0.take(), a1.take() => b1.take());
}
// [C17] statsd_set! with 3 tag(s) == set_with_tags(key, val).with_tag(..).with_tag(..).with_tag(..).send() on the global client
fn statsd_set_3(k: &mut Once, v: &mut Once, a0: &mut Once, b0: &mut Once, a1: &mut Once, b1: &mut Once, a2: &mut Once, b2: &mut Once)
    requires strict_mode(), global_set(), !old(k).used && !old(v).used && !old(a0).used && !old(b0).used && !old(a1).used && !old(b1).used && !old(a2).used && !old(b2).used,
        expected() == (Builder { method: 7, key: old(k).id, val: old(v).id, tags: seq![(old(a0).id, old(b0).id), (old(a1).id, old(b1).id), (old(a2).id, old(b2).id)], client: global_id() }),
{
    statsd_set!(k.take(), v.take(), a0.take() => b0.take(), a1.take() => b1.take(), a2.take() => b2.take());
}
// [C17] statsd_set! panics (never returns, sends nothing) when no global client has been set
fn statsd_set_unset(k: &mut Once, v: &mut Once, a0: &mut Once, b0: &mut Once)
    requires !strict_mode(), !global_set(), !old(k).used && !old(v).used && !old(a0).used && !old(b0).used,
    ensures false,
{
    statsd_set!(k.take(), v.take(), a0.take() => b0.take());
}

// ---- must-fail probes (vacuity / sensitivity guards): each of these functions has to be REJECTED
//@PROBE count_vacuity
fn probe_count_vacuity(k: &mut Once, v: &mut Once, a0: &mut Once, b0: &mut Once)
    requires strict_mode(), global_set(), !old(k).used && !old(v).used && !old(a0).used && !old(b0).used,
        expected() == (Builder { method: 1, key: old(k).id, val: old(v).id, tags: seq![(old(a0).id, old(b0).id)], client: global_id() }),
    ensures false,
{
    statsd_count!(k.take(), v.take(), a0.take() => b0.take());
}
//@PROBE tag_order
fn probe_tag_order(k: &mut Once, v: &mut Once, a0: &mut Once, b0: &mut Once, a1: &mut Once, b1: &mut Once)
    requires strict_mode(), global_set(), !old(k).used && !old(v).used && !old(a0).used && !old(b0).used && !old(a1).used && !old(b1).used,
        old(a0).id != old(a1).id,
        expected() == (Builder { method: 5, key: old(k).id, val: old(v).id, tags: seq![(old(a1).id, old(b1).id), (old(a0).id, old(b0).id)], client: global_id() }),
{
    statsd_histogram!(k.take(), v.take(), a0.take() => b0.take(), a1.take() => b1.take());
}
//@PROBE wrong_kind
fn probe_wrong_kind(k: &mut Once, v: &mut Once)
    requires strict_mode(), global_set(), !old(k).used && !old(v).used,
        expected() == (Builder { method: 3, key: old(k).id, val: old(v).id, tags: Seq::<(int, int)>::empty(), client: global_id() }),
{
    statsd_meter!(k.take(), v.take());
}
//@PROBE unset_strict
fn probe_unset_strict(k: &mut Once, v: &mut Once)
    requires strict_mode(), !global_set(), !old(k).used && !old(v).used,
{
    statsd_set!(k.take(), v.take());
}
//@PROBE double_evaluation
fn probe_double_evaluation(k: &mut Once)
    requires !old(k).used,
{
    let a = k.take();
    let b = k.take();
}
} // mod uses
}
fn main() {}
