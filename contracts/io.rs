// Verus template for cadence/src/io.rs  (properties C05 C06 C07 C19 C20)
// Code bodies are copied from /repo on every run by tools/extract.py; this file carries only
// the trusted models and the contracts.
//@REWRITE X2.io_result :: \bio::Result< => IoResult<
//@REWRITE X1.generic_self :: \bMultiLineWriter<T> => MultiLineWriter
//@REWRITE X1.inner_type :: \binner: T\b => inner: Sock
//@REWRITE X1.bufwriter :: \bBufWriter<T> => BufWriter
//@REWRITE X1.where_bound :: \bwhere\s+T:\s*Write,?\s* => 
use vstd::prelude::*;
verus! {

pub mod model {
use vstd::prelude::*;
use vstd::string::*;

// ---- TRUSTED MODEL: opaque io::Error token
pub struct IoError { pub id: int }
pub type IoResult<T> = Result<T, IoError>;

pub open spec fn flat(chunks: Seq<Seq<u8>>) -> Seq<u8>
    decreases chunks.len()
{
    if chunks.len() == 0 { Seq::empty() } else { flat(chunks.drop_last()) + chunks.last() }
}

pub broadcast proof fn lemma_flat_push(c: Seq<Seq<u8>>, b: Seq<u8>)
    ensures #[trigger] flat(c.push(b)) == flat(c) + b
{
    assert(c.push(b).drop_last() == c);
}
pub broadcast proof fn lemma_flat_empty(c: Seq<Seq<u8>>)
    requires c.len() == 0
    ensures #[trigger] flat(c).len() == 0
{
}

// string literal bytes: vstd specifies str::as_bytes as `r@ == s.spec_bytes()`
pub proof fn lemma_newline_bytes()
    ensures "\n".spec_bytes() == seq![10u8]
{
    reveal_strlit("\n");
    assert("\n".is_ascii());
    assert("\n".spec_bytes() =~= seq![10u8]);
}
pub assume_specification<'a, T: Clone> [ <Vec<T> as core::convert::From<&'a [T]>>::from ] (s: &[T]) -> (r: Vec<T>)
    ensures r@ == s@;

// ---- TRUSTED MODEL: the datagram socket (all-or-nothing writes).  `log` is the ghost history
// of accepted datagrams, each recorded as the list of chunks it was assembled from; the bytes on
// the wire are flat(datagram).  `attempts` counts every send attempt, successful or not.
pub struct Sock {
    pub log: Ghost<Seq<Seq<Seq<u8>>>>,
    pub attempts: Ghost<nat>,
    pub last_err: Ghost<Option<IoError>>,
}

impl Sock {
    #[verifier::external_body]
    pub fn write(&mut self, buf: &[u8]) -> (r: IoResult<usize>)
        ensures
            final(self).attempts@ == old(self).attempts@ + 1,
            match r {
                Ok(n) => n == buf@.len() && final(self).log@ == old(self).log@.push(seq![buf@]) && final(self).last_err@ == old(self).last_err@,
                Err(e) => final(self).log@ == old(self).log@ && final(self).last_err@ == Some(e),
            }
    { unimplemented!() }
}

// ---- TRUSTED MODEL: std::io::BufWriter<W> over a datagram writer W (std 1.9x source:
// BufWriter::{with_capacity, write, write_cold, flush_buf, flush, get_mut})
pub struct BufWriter {
    pub chunks: Ghost<Seq<Seq<u8>>>,
    pub cap: Ghost<nat>,
    pub inner: Sock,
}

/// flush_buf: an empty buffer makes no attempt; otherwise the whole buffer is offered as ONE
/// datagram; success empties the buffer, failure keeps it and reports the socket's error.
pub open spec fn bw_flushed(pre: BufWriter, r: IoResult<()>, post: BufWriter) -> bool {
    &&& post.cap == pre.cap
    &&& (pre.len() == 0 ==> r.is_ok() && post == pre)
    &&& (pre.len() > 0 ==> match r {
            Ok(_) => post.chunks@ == Seq::<Seq<u8>>::empty()
                && post.inner.log@ == pre.inner.log@.push(pre.chunks@)
                && post.inner.attempts@ > pre.inner.attempts@
                && post.inner.last_err@ == pre.inner.last_err@,
            Err(e) => post.chunks == pre.chunks
                && post.inner.log@ == pre.inner.log@
                && post.inner.attempts@ > pre.inner.attempts@
                && post.inner.last_err@ == Some(e),
        })
}

pub uninterp spec fn default_buf_size() -> nat;

impl BufWriter {
    pub open spec fn len(&self) -> nat { flat(self.chunks@).len() }

    #[verifier::external_body]
    pub fn with_capacity(cap: usize, inner: Sock) -> (r: BufWriter)
        ensures r.cap@ == cap, r.chunks@ == Seq::<Seq<u8>>::empty(), r.inner == inner
    { unimplemented!() }

    /// BufWriter::new: the buffer size is a library default the caller does not choose
    /// (documented as "currently 8 KiB, but may change")
    #[verifier::external_body]
    pub fn new(inner: Sock) -> (r: BufWriter)
        ensures r.cap@ == default_buf_size(), r.chunks@ == Seq::<Seq<u8>>::empty(), r.inner == inner
    { unimplemented!() }

    #[verifier::external_body]
    pub fn get_mut(&mut self) -> (r: &mut Sock)
        ensures *r == old(self).inner,
                final(self).inner == *final(r),
                final(self).chunks == old(self).chunks,
                final(self).cap == old(self).cap,
    { unimplemented!() }

    #[verifier::external_body]
    pub fn flush(&mut self) -> (r: IoResult<()>)
        ensures bw_flushed(*old(self), r, *final(self))
    { unimplemented!() }

    /// BufWriter::write, all three paths (fast copy, cold with flush_buf, direct write of a
    /// buffer-sized input)
    #[verifier::external_body]
    pub fn write(&mut self, buf: &[u8]) -> (r: IoResult<usize>)
        ensures
            final(self).cap == old(self).cap,
            // fast path / buffered half of the cold path: no socket activity
            (buf@.len() + old(self).len() <= old(self).cap@ && buf@.len() < old(self).cap@) ==>
                r == Ok::<usize, IoError>(buf@.len() as usize)
                && final(self).inner == old(self).inner
                && final(self).chunks@ == old(self).chunks@.push(buf@),
            // cold path: input does not fit behind the buffered data => flush_buf first
            (buf@.len() + old(self).len() > old(self).cap@) ==> exists|mid: BufWriter, fr: IoResult<()>|
                #[trigger] bw_flushed(*old(self), fr, mid) && match fr {
                    Err(e) => r == Err::<usize, IoError>(e) && *final(self) == mid,
                    Ok(_) => if buf@.len() >= old(self).cap@ {
                            // direct write of the input as its own datagram
                            final(self).chunks == mid.chunks
                            && final(self).inner.attempts@ == mid.inner.attempts@ + 1
                            && match r {
                                Ok(n) => n == buf@.len() && final(self).inner.log@ == mid.inner.log@.push(seq![buf@]) && final(self).inner.last_err@ == mid.inner.last_err@,
                                Err(e) => final(self).inner.log@ == mid.inner.log@ && final(self).inner.last_err@ == Some(e),
                            }
                        } else {
                            r == Ok::<usize, IoError>(buf@.len() as usize)
                            && final(self).inner == mid.inner
                            && final(self).chunks@ == mid.chunks@.push(buf@)
                        },
                },
            // input exactly buffer-sized into an empty buffer: direct write, no flush
            (buf@.len() + old(self).len() <= old(self).cap@ && buf@.len() >= old(self).cap@) ==>
                final(self).chunks == old(self).chunks
                && final(self).inner.attempts@ == old(self).inner.attempts@ + 1
                && match r {
                    Ok(n) => n == buf@.len() && final(self).inner.log@ == old(self).inner.log@.push(seq![buf@]) && final(self).inner.last_err@ == old(self).inner.last_err@,
                    Err(e) => final(self).inner.log@ == old(self).inner.log@ && final(self).inner.last_err@ == Some(e),
                },
    { unimplemented!() }
}

} // mod model

pub mod spec {
use vstd::prelude::*;
use super::model::*;
/// chunks is [m1, e, m2, e, ...]: every metric chunk is followed by the terminator chunk
pub open spec fn well_framed(chunks: Seq<Seq<u8>>, ending: Seq<u8>) -> bool {
    chunks.len() % 2 == 0
    && forall|i: int| 0 <= i < chunks.len() && i % 2 == 1 ==> #[trigger] chunks[i] == ending
}

/// C05: what a single datagram handed to the socket may look like
pub open spec fn dgram_ok(d: Seq<Seq<u8>>, ending: Seq<u8>, cap: nat) -> bool {
    ||| (d.len() >= 2 && well_framed(d, ending) && flat(d).len() <= cap)
    ||| (d.len() == 1 && d[0].len() + ending.len() > cap)
}

/// C05: every datagram appended to the log during a call is well formed, and nothing already
/// on the wire is altered
pub open spec fn log_extends_ok(pre: Seq<Seq<Seq<u8>>>, post: Seq<Seq<Seq<u8>>>, ending: Seq<u8>, cap: nat) -> bool {
    &&& pre.len() <= post.len()
    &&& post.subrange(0, pre.len() as int) == pre
    &&& forall|i: int| pre.len() <= i < post.len() ==> dgram_ok(#[trigger] post[i], ending, cap)
}


pub broadcast proof fn lemma_extends_refl(pre: Seq<Seq<Seq<u8>>>, ending: Seq<u8>, cap: nat)
    ensures #[trigger] log_extends_ok(pre, pre, ending, cap)
{
    assert(pre.subrange(0, pre.len() as int) == pre);
}
pub broadcast proof fn lemma_extends_push(pre: Seq<Seq<Seq<u8>>>, d: Seq<Seq<u8>>, ending: Seq<u8>, cap: nat)
    requires dgram_ok(d, ending, cap)
    ensures #[trigger] log_extends_ok(pre, pre.push(d), ending, cap)
{
    assert(pre.push(d).subrange(0, pre.len() as int) == pre);
}
pub broadcast proof fn lemma_extends_push2(pre: Seq<Seq<Seq<u8>>>, d1: Seq<Seq<u8>>, d2: Seq<Seq<u8>>, ending: Seq<u8>, cap: nat)
    requires dgram_ok(d1, ending, cap), dgram_ok(d2, ending, cap)
    ensures #[trigger] log_extends_ok(pre, pre.push(d1).push(d2), ending, cap)
{
    assert(pre.push(d1).push(d2).subrange(0, pre.len() as int) == pre);
}

// ---------------------------------------------------------------------------------------------
// The per-call postconditions of write/flush as a transition relation on the abstract view
// (pending chunk list, wire log). The history lemmas below consume exactly this relation.
// ---------------------------------------------------------------------------------------------
pub struct AbsView {
    pub pending: Seq<Seq<u8>>,
    pub wire: Seq<Seq<Seq<u8>>>,
}

/// chunks of all framed datagrams on the wire, in order (a datagram of exactly one chunk is an
/// oversized metric that was sent alone)
pub open spec fn wire_chunks(w: Seq<Seq<Seq<u8>>>) -> Seq<Seq<u8>>
    decreases w.len()
{
    if w.len() == 0 { Seq::empty() } else {
        let r = wire_chunks(w.drop_last());
        if w.last().len() == 1 { r } else { r + w.last() }
    }
}
/// the oversized metrics on the wire, in order
pub open spec fn wire_big(w: Seq<Seq<Seq<u8>>>) -> Seq<Seq<u8>>
    decreases w.len()
{
    if w.len() == 0 { Seq::empty() } else {
        let r = wire_big(w.drop_last());
        if w.last().len() == 1 { r.push(w.last()[0]) } else { r }
    }
}
/// everything accepted so far that fits the buffer: what already left in framed datagrams, followed
/// by what is still pending -- the quantity that every call must conserve
pub open spec fn flow(v: AbsView) -> Seq<Seq<u8>> { wire_chunks(v.wire) + v.pending }

pub broadcast proof fn lemma_wire_push(w: Seq<Seq<Seq<u8>>>, d: Seq<Seq<u8>>)
    ensures
        d.len() != 1 ==> #[trigger] wire_chunks(w.push(d)) == wire_chunks(w) + d,
        d.len() == 1 ==> wire_chunks(w.push(d)) == wire_chunks(w),
{
    assert(w.push(d).drop_last() == w);
}
pub broadcast proof fn lemma_wire_big_push(w: Seq<Seq<Seq<u8>>>, d: Seq<Seq<u8>>)
    ensures
        d.len() != 1 ==> #[trigger] wire_big(w.push(d)) == wire_big(w),
        d.len() == 1 ==> wire_big(w.push(d)) == wire_big(w).push(d[0]),
{
    assert(w.push(d).drop_last() == w);
}

/// the per-call postconditions of write/flush as a transition relation on the abstract view: a call
/// may move chunks from `pending` to the wire in any way it likes, but
///  - an accepted fitting metric adds exactly [metric, terminator] at the END of the flow,
///  - an accepted oversized metric adds exactly itself to the oversized datagrams,
///  - a failed call adds nothing, and nobody ever removes or reorders anything
pub open spec fn step_write(pre: AbsView, m: Seq<u8>, ok: bool, post: AbsView, e: Seq<u8>, cap: nat) -> bool {
    if !ok {
        flow(post) =~= flow(pre) && wire_big(post.wire) =~= wire_big(pre.wire)
    } else if m.len() + e.len() > cap {
        flow(post) =~= flow(pre) && wire_big(post.wire) =~= wire_big(pre.wire).push(m)
    } else {
        flow(post) =~= flow(pre).push(m).push(e) && wire_big(post.wire) =~= wire_big(pre.wire)
    }
}

pub open spec fn step_flush(pre: AbsView, ok: bool, post: AbsView) -> bool {
    &&& flow(post) =~= flow(pre)
    &&& wire_big(post.wire) =~= wire_big(pre.wire)
    &&& (ok ==> post.pending =~= Seq::<Seq<u8>>::empty())
}
} // mod spec

pub mod lemmas {
// ---------------------------------------------------------------------------------------------
// History lemmas (unbounded induction over the length of the history). They talk only about the
// transition relation step_write/step_flush, i.e. about the contracts, not about the code.
// ---------------------------------------------------------------------------------------------
use vstd::prelude::*;
use super::model::*;
use super::spec::*;

pub enum Op { Write(Seq<u8>), Flush }

pub open spec fn step(pre: AbsView, op: Op, ok: bool, post: AbsView, e: Seq<u8>, cap: nat) -> bool {
    match op {
        Op::Write(m) => step_write(pre, m, ok, post, e, cap),
        Op::Flush => step_flush(pre, ok, post),
    }
}

/// a history: states s[0..=n], operations with their outcome (true = returned Ok), consecutive steps
pub open spec fn trace_ok(s: Seq<AbsView>, ops: Seq<(Op, bool)>, e: Seq<u8>, cap: nat) -> bool {
    s.len() == ops.len() + 1
    && forall|i: int| 0 <= i < ops.len() ==> step(s[i], #[trigger] ops[i].0, ops[i].1, s[i + 1], e, cap)
}

pub open spec fn fits(m: Seq<u8>, e: Seq<u8>, cap: nat) -> bool { m.len() + e.len() <= cap }

/// [m1, e, m2, e, ...]
pub open spec fn chunkify(ms: Seq<Seq<u8>>, e: Seq<u8>) -> Seq<Seq<u8>>
    decreases ms.len()
{
    if ms.len() == 0 { Seq::empty() } else { chunkify(ms.drop_last(), e).push(ms.last()).push(e) }
}

/// the Ok-acknowledged metrics that fit an empty buffer, in emission order
pub open spec fn acked_fit(ops: Seq<(Op, bool)>, e: Seq<u8>, cap: nat) -> Seq<Seq<u8>>
    decreases ops.len()
{
    if ops.len() == 0 { Seq::empty() } else {
        let r = acked_fit(ops.drop_last(), e, cap);
        match ops.last() {
            (Op::Write(m), true) => if fits(m, e, cap) { r.push(m) } else { r },
            _ => r,
        }
    }
}
/// the Ok-acknowledged oversized metrics, in emission order
pub open spec fn acked_big(ops: Seq<(Op, bool)>, e: Seq<u8>, cap: nat) -> Seq<Seq<u8>>
    decreases ops.len()
{
    if ops.len() == 0 { Seq::empty() } else {
        let r = acked_big(ops.drop_last(), e, cap);
        match ops.last() {
            (Op::Write(m), true) => if !fits(m, e, cap) { r.push(m) } else { r },
            _ => r,
        }
    }
}
proof fn lemma_chunkify_push(ms: Seq<Seq<u8>>, m: Seq<u8>, e: Seq<u8>)
    ensures chunkify(ms.push(m), e) == chunkify(ms, e).push(m).push(e)
{
    assert(ms.push(m).drop_last() == ms);
}

proof fn lemma_prefix_trace(s: Seq<AbsView>, ops: Seq<(Op, bool)>, e: Seq<u8>, cap: nat)
    requires trace_ok(s, ops, e, cap), ops.len() > 0
    ensures trace_ok(s.drop_last(), ops.drop_last(), e, cap),
        step(s[ops.len() - 1], ops.last().0, ops.last().1, s.last(), e, cap),
        s.drop_last().last() == s[ops.len() - 1], s.drop_last()[0] == s[0],
{
    let s0 = s.drop_last(); let o0 = ops.drop_last();
    assert forall|i: int| 0 <= i < o0.len() implies step(s0[i], #[trigger] o0[i].0, o0[i].1, s0[i + 1], e, cap) by {
        assert(s0[i] == s[i] && s0[i + 1] == s[i + 1] && o0[i] == ops[i]);
    }
    let n = ops.len() as int;
    assert(ops[n - 1] == ops.last());
}

/// C06 / C07 -- conservation, for EVERY history and EVERY pattern of failed socket writes:
/// the chunks of all framed datagrams on the wire followed by what is still pending are exactly the
/// Ok-acknowledged fitting metrics (each followed by the terminator), in emission order, each once;
/// the oversized datagrams are exactly the Ok-acknowledged oversized metrics, in order, unmodified.
/// Nothing refused (Err) ever appears, nothing appears twice.
pub proof fn lemma_conservation(s: Seq<AbsView>, ops: Seq<(Op, bool)>, e: Seq<u8>, cap: nat)
    requires trace_ok(s, ops, e, cap), s[0].pending.len() == 0, s[0].wire.len() == 0
    ensures
        flow(s.last()) =~= chunkify(acked_fit(ops, e, cap), e),
        wire_big(s.last().wire) =~= acked_big(ops, e, cap),
    decreases ops.len()
{
    if ops.len() == 0 {
        assert(flow(s[0]) =~= Seq::<Seq<u8>>::empty());
        assert(wire_big(s[0].wire) =~= Seq::<Seq<u8>>::empty());
    } else {
        lemma_prefix_trace(s, ops, e, cap);
        let s0 = s.drop_last(); let o0 = ops.drop_last();
        lemma_conservation(s0, o0, e, cap);
        let af0 = acked_fit(o0, e, cap);
        match ops.last().0 {
            Op::Flush => {}
            Op::Write(m) => { if ops.last().1 && fits(m, e, cap) { lemma_chunkify_push(af0, m, e); } }
        }
    }
}

/// C06: a successful flush leaves nothing pending, so everything acknowledged so far is on the wire,
/// and flushing again appends nothing (idempotence)
pub proof fn lemma_flush_complete(s: Seq<AbsView>, ops: Seq<(Op, bool)>, e: Seq<u8>, cap: nat)
    requires trace_ok(s, ops, e, cap), s[0].pending.len() == 0, s[0].wire.len() == 0,
        ops.len() > 0, ops.last().0 is Flush, ops.last().1,
    ensures
        wire_chunks(s.last().wire) =~= chunkify(acked_fit(ops, e, cap), e),
        s.last().pending.len() == 0,
        forall|post: AbsView| step_flush(s.last(), true, post) ==> wire_chunks(post.wire) =~= wire_chunks(s.last().wire),
{
    lemma_conservation(s, ops, e, cap);
    lemma_prefix_trace(s, ops, e, cap);
    assert(s.last().pending =~= Seq::<Seq<u8>>::empty());
    assert(flow(s.last()) =~= wire_chunks(s.last().wire));
    assert forall|post: AbsView| step_flush(s.last(), true, post) implies wire_chunks(post.wire) =~= wire_chunks(s.last().wire) by {
        assert(flow(post) =~= wire_chunks(post.wire));
    }
}

/// C05, lifted to histories: if every step extends the log only by well-formed datagrams, every
/// datagram ever sent is well formed
pub proof fn lemma_all_datagrams_ok(logs: Seq<Seq<Seq<Seq<u8>>>>, e: Seq<u8>, cap: nat)
    requires logs.len() > 0, logs[0].len() == 0,
        forall|i: int| 0 <= i < logs.len() - 1 ==> log_extends_ok(#[trigger] logs[i], logs[i + 1], e, cap),
    ensures forall|k: int| 0 <= k < logs.last().len() ==> dgram_ok(#[trigger] logs.last()[k], e, cap)
    decreases logs.len()
{
    if logs.len() > 1 {
        let l0 = logs.drop_last();
        assert forall|i: int| 0 <= i < l0.len() - 1 implies log_extends_ok(#[trigger] l0[i], l0[i + 1], e, cap) by {
            assert(l0[i] == logs[i] && l0[i + 1] == logs[i + 1]);
        }
        lemma_all_datagrams_ok(l0, e, cap);
        let n = logs.len() as int;
        assert(l0.last() == logs[n - 2]);
        assert(log_extends_ok(logs[n - 2], logs[n - 1], e, cap));
        assert forall|k: int| 0 <= k < logs.last().len() implies dgram_ok(#[trigger] logs.last()[k], e, cap) by {
            if k < logs[n - 2].len() {
                assert(logs[n - 1].subrange(0, logs[n - 2].len() as int)[k] == logs[n - 1][k]);
            }
        }
    }
}
} // mod lemmas

pub mod frame {
// ---------------------------------------------------------------------------------------------
// C05 / C06 / C07 (and the arithmetic obligations of C20): proved from the *safe accounting*
// invariant only (the byte counter never under-estimates what BufWriter holds).
// ---------------------------------------------------------------------------------------------
use vstd::prelude::*;
use vstd::string::*;
use super::model::*;
use super::spec::*;
broadcast use {lemma_flat_push, lemma_flat_empty, lemma_extends_refl, lemma_extends_push, lemma_extends_push2, lemma_wire_push, lemma_wire_big_push};

//@ITEM cadence/src/io.rs :: struct WriterMetrics\b
impl WriterMetrics {
    #[verifier::external_body]
    fn default() -> (r: WriterMetrics) ensures r.inner_write == 0, r.buf_write == 0, r.flushed == 0
    { unimplemented!() }
}

//@ITEM cadence/src/io.rs :: pub struct MultiLineWriter<T>

impl MultiLineWriter {
    /// C20 assumption: the three diagnostic call counters are below 2^62 (fewer than 2^62 calls so far)
    spec fn counters_ok(&self) -> bool {
        self.metrics.inner_write < 0x4000_0000_0000_0000 && self.metrics.buf_write < 0x4000_0000_0000_0000 && self.metrics.flushed < 0x4000_0000_0000_0000
    }
    spec fn counters_ok_after(&self, pre: MultiLineWriter) -> bool {
        self.metrics.inner_write <= pre.metrics.inner_write + 4 && self.metrics.buf_write <= pre.metrics.buf_write + 4
        && self.metrics.flushed <= pre.metrics.flushed + 4
    }
    spec fn counters_flush(&self, pre: MultiLineWriter) -> bool {
        self.metrics.inner_write == pre.metrics.inner_write && self.metrics.buf_write == pre.metrics.buf_write
        && self.metrics.flushed <= pre.metrics.flushed + 1
    }
    /// representation invariant (safe accounting)
    spec fn inv(&self) -> bool {
        &&& self.inner.cap@ == self.capacity
        &&& self.line_ending@.len() > 0
        &&& self.line_ending@.len() <= isize::MAX   // language invariant on Vec length
        &&& self.capacity <= isize::MAX             // allocation limit: BufWriter::with_capacity(cap) owns a cap-byte buffer
        &&& well_framed(self.inner.chunks@, self.line_ending@)
        &&& self.inner.len() <= self.written
        &&& self.written <= self.capacity
    }
    spec fn pending(&self) -> Seq<Seq<u8>> { self.inner.chunks@ }
    spec fn wire(&self) -> Seq<Seq<Seq<u8>>> { self.inner.inner.log@ }
    spec fn absview(&self) -> AbsView { AbsView { pending: self.inner.chunks@, wire: self.inner.inner.log@ } }
    spec fn last_err(&self) -> Option<IoError> { self.inner.inner.last_err@ }
    spec fn ending(&self) -> Seq<u8> { self.line_ending@ }
    spec fn cap(&self) -> nat { self.capacity as nat }
    spec fn buffered(&self) -> nat { self.written as nat }

    //@FN cadence/src/io.rs :: impl<T> MultiLineWriter<T> :: with_ending :: vis=
        requires end.spec_bytes().len() > 0, end.spec_bytes().len() <= isize::MAX, cap <= isize::MAX,
        ensures
            r.inv(),                                                   // [C05 C06 C07 C20] the constructor establishes the representation invariant
            r.cap() == cap,                                            // [C05 C13] the configured capacity is the one used
            r.ending() == end.spec_bytes(),                            // [C05 C13] the configured terminator is the one used
            r.pending() == Seq::<Seq<u8>>::empty(),                    // [C06] nothing is buffered initially
            r.wire() == inner.log@,                                    // [C05 C06] construction sends nothing
            r.counters_ok(),
    //@END

    //@FN cadence/src/io.rs :: impl<T> MultiLineWriter<T> :: new :: vis=
        requires "\n".spec_bytes() == seq![10u8],   // discharged by model::lemma_newline_bytes
            cap <= isize::MAX,
        ensures
            r.inv(),                                                   // [C05 C06 C07 C20] the constructor establishes the representation invariant
            r.cap() == cap,                                            // [C05 C13] the configured capacity is the one used
            r.ending() == seq![10u8],                                  // [C05 C13] the terminator is a single newline
            r.pending() == Seq::<Seq<u8>>::empty(),                    // [C06] nothing is buffered initially
            r.wire() == inner.log@,                                    // [C05 C06] construction sends nothing
            r.counters_ok(),
    //@END

    //@FN cadence/src/io.rs :: impl<T> Write for MultiLineWriter<T> :: write :: vis=
        requires
            old(self).inv(),
            old(self).counters_ok(),
            buf@.len() <= isize::MAX,   // language invariant: no object is larger than isize::MAX
            // envelope: an empty metric with a terminator as long as the whole buffer is excluded (DESIGN C05)
            !(buf@.len() == 0 && old(self).ending().len() == old(self).cap()),
        ensures
            final(self).inv(),                                         // [C05 C06 C07 C13] write preserves the representation invariant
            final(self).buffered() <= final(self).cap(),               // [C20] the fill counter never exceeds the capacity (every later call computes capacity - written)
            final(self).cap() == old(self).cap(),                      // [C05] capacity never changes
            final(self).ending() == old(self).ending(),                // [C05] terminator never changes
            final(self).counters_ok_after(*old(self)),   // (helper: the diagnostic call counters grow by at most 4 per call)
            log_extends_ok(old(self).wire(), final(self).wire(), old(self).ending(), old(self).cap()),  // [C05 C13] every datagram sent during an emit is whole metrics+terminators within capacity, or one oversized metric alone
            r matches Ok(n) ==> n == buf@.len(),                       // [C06] Ok carries the metric's byte length
            r.is_ok() ==> final(self).last_err() == old(self).last_err(),
            r matches Err(e) ==> final(self).last_err() == Some(e),    // [C07] an error returned by emit is the socket's own error
            r.is_ok() && buf@.len() + old(self).ending().len() > old(self).cap() ==>
                final(self).pending() == old(self).pending(),          // [C06 C07] an oversized metric leaves the buffer untouched
            r.is_ok() && buf@.len() + old(self).ending().len() > old(self).cap() ==>
                final(self).wire() == old(self).wire().push(seq![buf@]),   // [C05 C06] an oversized metric is written during its own emit, alone, unmodified, without terminator
            r.is_ok() ==> step_write(old(self).absview(), buf@, true, final(self).absview(), old(self).ending(), old(self).cap()),  // [C06] conservation: an accepted fitting metric adds exactly [metric, terminator] at the end of (framed chunks on the wire ++ pending); an accepted oversized metric adds exactly itself to the oversized datagrams; nothing is removed, duplicated or reordered
            r.is_err() ==> step_write(old(self).absview(), buf@, false, final(self).absview(), old(self).ending(), old(self).cap()),  // [C07] conservation under failure: a failed emit adds nothing (its own metric can never be written later) and loses nothing that was accepted earlier
            r.is_err() ==> final(self).pending() == old(self).pending(),   // [C07] failed emit: everything accepted earlier stays buffered, its own metric is not buffered
            r.is_err() ==> final(self).wire() == old(self).wire(),         // [C07] failed emit: nothing reached the wire
    //@END

    //@FN cadence/src/io.rs :: impl<T> Write for MultiLineWriter<T> :: flush :: vis=
        requires
            old(self).inv(),
            old(self).metrics.flushed < u64::MAX,   // C20 assumption: fewer than 2^64 flush calls
        ensures
            final(self).inv(),                                         // [C05 C06 C07 C13] flush preserves the representation invariant
            final(self).buffered() <= final(self).cap(),               // [C20] the fill counter never exceeds the capacity (every later call computes capacity - written)
            final(self).cap() == old(self).cap(),                      // [C05] capacity never changes
            final(self).ending() == old(self).ending(),                // [C05] terminator never changes
            final(self).counters_flush(*old(self)),
            log_extends_ok(old(self).wire(), final(self).wire(), old(self).ending(), old(self).cap()),  // [C05 C13] the datagram sent by flush is whole metrics+terminators within capacity
            r.is_ok() ==> final(self).pending() == Seq::<Seq<u8>>::empty(),    // [C06] after a successful flush nothing remains buffered
            r.is_ok() ==> final(self).buffered() == 0,                         // (helper: the byte counter restarts; write relies on it)
            r.is_err() ==> final(self).buffered() == old(self).buffered(),     // (helper)
            r.is_ok() ==> final(self).wire() == (if old(self).pending().len() > 0 { old(self).wire().push(old(self).pending()) } else { old(self).wire() }),  // [C06 C13] flush sends exactly the pending metrics, once, in order, as one datagram (what remains is sent when flushed); with nothing pending it sends nothing
            r.is_ok() ==> final(self).last_err() == old(self).last_err(),
            r.is_ok() ==> step_flush(old(self).absview(), true, final(self).absview()),     // [C06] conservation: flush adds and removes nothing; after Ok nothing is pending
            r.is_err() ==> step_flush(old(self).absview(), false, final(self).absview()),   // [C07] conservation under failure: a failed flush loses nothing that was accepted
            r.is_err() ==> final(self).pending() == old(self).pending(),     // [C07] failed flush keeps everything buffered
            r.is_err() ==> final(self).wire() == old(self).wire(),           // [C07] failed flush: nothing reached the wire
            r matches Err(e) ==> final(self).last_err() == Some(e),          // [C07] the error returned by flush is the socket's own error
    //@END
}

} // mod frame

pub mod greedy {
// ---------------------------------------------------------------------------------------------
// C19: the same four functions, proved again under the *exact accounting* invariant
// (written == bytes held by BufWriter), with the socket-activity (attempt counting) clauses.
// ---------------------------------------------------------------------------------------------
use vstd::prelude::*;
use vstd::string::*;
use super::model::*;
use super::spec::*;
broadcast use {lemma_flat_push, lemma_flat_empty};

//@ITEM cadence/src/io.rs :: struct WriterMetrics\b
impl WriterMetrics {
    #[verifier::external_body]
    fn default() -> (r: WriterMetrics) ensures r.inner_write == 0, r.buf_write == 0, r.flushed == 0
    { unimplemented!() }
}

//@ITEM cadence/src/io.rs :: pub struct MultiLineWriter<T>

impl MultiLineWriter {
    spec fn counters_ok(&self) -> bool {
        self.metrics.inner_write < 0x4000_0000_0000_0000 && self.metrics.buf_write < 0x4000_0000_0000_0000 && self.metrics.flushed < 0x4000_0000_0000_0000
    }
    spec fn counters_ok_after(&self, pre: MultiLineWriter) -> bool {
        self.metrics.inner_write <= pre.metrics.inner_write + 4 && self.metrics.buf_write <= pre.metrics.buf_write + 4
        && self.metrics.flushed <= pre.metrics.flushed + 4
    }
    spec fn counters_flush(&self, pre: MultiLineWriter) -> bool {
        self.metrics.inner_write == pre.metrics.inner_write && self.metrics.buf_write == pre.metrics.buf_write
        && self.metrics.flushed <= pre.metrics.flushed + 1
    }
    /// exact accounting
    spec fn tight(&self) -> bool {
        &&& self.inner.cap@ == self.capacity
        &&& self.line_ending@.len() > 0
        &&& self.line_ending@.len() <= isize::MAX
        &&& self.capacity <= isize::MAX
        &&& well_framed(self.inner.chunks@, self.line_ending@)
        &&& self.written == self.inner.len()
        &&& self.written <= self.capacity
    }
    spec fn pending(&self) -> Seq<Seq<u8>> { self.inner.chunks@ }
    spec fn pending_bytes(&self) -> nat { flat(self.inner.chunks@).len() }
    spec fn wire(&self) -> Seq<Seq<Seq<u8>>> { self.inner.inner.log@ }
    spec fn attempts(&self) -> nat { self.inner.inner.attempts@ }
    spec fn ending(&self) -> Seq<u8> { self.line_ending@ }
    spec fn cap(&self) -> nat { self.capacity as nat }

    //@FN cadence/src/io.rs :: impl<T> MultiLineWriter<T> :: with_ending :: vis=
        requires end.spec_bytes().len() > 0, end.spec_bytes().len() <= isize::MAX, cap <= isize::MAX,
        ensures
            r.tight(),                                                 // [C19] the constructor establishes exact accounting
            r.cap() == cap, r.ending() == end.spec_bytes(),
            r.pending() == Seq::<Seq<u8>>::empty(),
            r.wire() == inner.log@ && r.attempts() == inner.attempts@, // [C19] construction causes no socket activity
            r.counters_ok(),
    //@END

    //@FN cadence/src/io.rs :: impl<T> Write for MultiLineWriter<T> :: write :: vis=
        requires
            old(self).tight(),
            old(self).counters_ok(),
            buf@.len() <= isize::MAX,
            !(buf@.len() == 0 && old(self).ending().len() == old(self).cap()),
        ensures
            final(self).tight(),                                       // [C19] write keeps the byte accounting exact
            final(self).cap() == old(self).cap(),
            final(self).ending() == old(self).ending(),
            final(self).counters_ok_after(*old(self)),   // (helper: the diagnostic call counters grow by at most 4 per call)
            r.is_ok() && buf@.len() + old(self).ending().len() > old(self).cap() ==>
                final(self).attempts() == old(self).attempts() + 1
                && final(self).wire() == old(self).wire().push(seq![buf@])
                && final(self).pending() == old(self).pending(),       // [C19] an oversized metric makes exactly one send, carrying only itself
            buf@.len() + old(self).ending().len() < old(self).cap() - old(self).pending_bytes() ==>
                r.is_ok() && final(self).wire() == old(self).wire() && final(self).attempts() == old(self).attempts()
                && final(self).pending() == old(self).pending().push(buf@).push(old(self).ending()),  // [C19] a metric that fits with room to spare is coalesced: no socket activity of any kind
            r.is_ok() && buf@.len() + old(self).ending().len() <= old(self).cap()
                && buf@.len() + old(self).ending().len() == old(self).cap() - old(self).pending_bytes() ==>
                ({  ||| (final(self).wire() == old(self).wire() && final(self).attempts() == old(self).attempts()
                         && final(self).pending() == old(self).pending().push(buf@).push(old(self).ending()))
                    ||| (final(self).wire() == old(self).wire().push(old(self).pending().push(buf@).push(old(self).ending()))
                         && final(self).pending() == Seq::<Seq<u8>>::empty())
                }),                                                    // [C19] exact fill: the metric joins the pending ones (buffered, or sent together with them)
            r.is_ok() && buf@.len() + old(self).ending().len() <= old(self).cap()
                && buf@.len() + old(self).ending().len() > old(self).cap() - old(self).pending_bytes() ==>
                ({  let w1 = if old(self).pending_bytes() > 0 { old(self).wire().push(old(self).pending()) } else { old(self).wire() };
                    let line = Seq::<Seq<u8>>::empty().push(buf@).push(old(self).ending());
                    ||| (final(self).wire() == w1 && final(self).pending() == line)
                    ||| (buf@.len() + old(self).ending().len() == old(self).cap() && final(self).wire() == w1.push(line) && final(self).pending() == Seq::<Seq<u8>>::empty())
                }),  // [C19] no room: exactly the old buffer leaves, alone; the new metric is then buffered (it may leave at once only if it fills the whole buffer by itself)
            r.is_err() ==> final(self).pending() == old(self).pending() && final(self).wire() == old(self).wire(),   // (helper: the current code leaves the state untouched on failure)
    //@END

    //@FN cadence/src/io.rs :: impl<T> Write for MultiLineWriter<T> :: flush :: vis=
        requires
            old(self).tight(),
            old(self).metrics.flushed < u64::MAX,
        ensures
            final(self).tight(),                                       // [C19] flush keeps the byte accounting exact
            final(self).cap() == old(self).cap(),
            final(self).ending() == old(self).ending(),
            final(self).counters_flush(*old(self)),
            r.is_ok() ==> final(self).pending() == Seq::<Seq<u8>>::empty()
                && final(self).wire() == (if old(self).pending_bytes() > 0 { old(self).wire().push(old(self).pending()) } else { old(self).wire() }),  // [C19] an explicit flush sends the pending metrics as ONE datagram
            old(self).pending_bytes() == 0 ==> r.is_ok() && final(self).attempts() == old(self).attempts() && final(self).wire() == old(self).wire(),  // [C19] flushing an empty buffer makes no send attempt
            r.is_err() ==> final(self).pending() == old(self).pending() && final(self).wire() == old(self).wire(),   // (helper: the current code leaves the state untouched on failure)
    //@END
}

} // mod greedy
}
fn main() {}
