// Pure Verus lemma track for the queuing sink (C08 C09 C11 C15): history-level statements proved by
// induction over an abstract transition system whose steps ARE the per-function contracts that the
// Kani harnesses in kani/harness/queuing.rs establish on the real code (the transcription of those
// contracts into `step` is part of the trusted base, DESIGN 2.3). No code is extracted here.
use vstd::prelude::*;
verus! {

pub mod queue {
use vstd::prelude::*;

pub struct St {
    pub q: Seq<Option<int>>,     // the channel: Some(metric id) or the stop marker
    pub acc: Seq<int>,           // metric ids whose emit returned Ok, in acceptance order
    pub del: Seq<int>,           // metric ids handed to the wrapped sink, in order
    pub submitted: nat,
    pub drained: nat,
    pub panics: nat,
    pub panicked: nat,           // number of Take steps whose outcome was a panic
    pub stop_req: bool,
    pub running: bool,           // the worker loop has not ended
    pub cap: Option<nat>,
}

pub enum Outcome { Ok, Err, Panic }
pub enum Step {
    Submit(int, bool),   // emit of metric id with result Ok / refused           (contract: c15_submit, c10_emit_*)
    Take(Outcome),       // the worker dequeues the front entry and processes it  (contract: c08_run_fifo_*, c11_dequeue_before_task, c11_sentinel_*)
    Stop,                // the last handle is dropped                            (contract: c09_stop_*, c09_last_drop_stops)
    Idle,                // the worker finds the queue empty                      (contract: run's loop head)
}

pub open spec fn room(s: St) -> bool { match s.cap { Some(c) => s.q.len() < c, None => true } }

pub open spec fn somes(q: Seq<Option<int>>) -> Seq<int>
    decreases q.len()
{
    if q.len() == 0 { Seq::empty() } else {
        match q[0] { Some(v) => seq![v] + somes(q.drop_first()), None => somes(q.drop_first()) }
    }
}

pub open spec fn step(pre: St, st: Step, post: St) -> bool {
    match st {
        Step::Submit(m, ok) => {
            if ok {
                room(pre) && post == (St { q: pre.q.push(Some(m)), acc: pre.acc.push(m), submitted: pre.submitted + 1, ..pre })
            } else {
                !room(pre) && post == pre
            }
        }
        Step::Take(o) => {
            pre.running && pre.q.len() > 0 && match pre.q[0] {
                Some(v) => post == (St { q: pre.q.drop_first(), del: pre.del.push(v), drained: pre.drained + 1,
                                          panics: if o is Panic { pre.panics + 1 } else { pre.panics },
                                          panicked: if o is Panic { pre.panicked + 1 } else { pre.panicked }, ..pre }),
                None => post == (St { q: pre.q.drop_first(), running: false, ..pre }),
            }
        }
        Step::Stop => {
            post == (St { stop_req: true, q: if room(pre) { pre.q.push(None) } else { pre.q }, ..pre })
        }
        Step::Idle => {
            pre.running && pre.q.len() == 0 && post == (St { running: !pre.stop_req, ..pre })
        }
    }
}

pub open spec fn init(s: St) -> bool {
    s.q.len() == 0 && s.acc.len() == 0 && s.del.len() == 0 && s.submitted == 0 && s.drained == 0 && s.panics == 0 && s.panicked == 0 && !s.stop_req && s.running
}

pub open spec fn trace_ok(s: Seq<St>, steps: Seq<Step>) -> bool {
    s.len() == steps.len() + 1 && init(s[0])
    && forall|i: int| 0 <= i < steps.len() ==> step(s[i], #[trigger] steps[i], s[i + 1])
}

/// the invariant every reachable state satisfies
pub open spec fn inv(s: St) -> bool {
    &&& s.acc =~= s.del + somes(s.q)
    &&& s.submitted == s.acc.len()
    &&& s.drained == s.del.len()
    &&& s.panics == s.panicked
    &&& (s.cap matches Some(c) ==> s.q.len() <= c)
}

proof fn lemma_somes_push(q: Seq<Option<int>>, x: Option<int>)
    ensures somes(q.push(x)) =~= (match x { Some(v) => somes(q).push(v), None => somes(q) })
    decreases q.len()
{
    let qx = q.push(x);
    if q.len() == 0 {
        assert(qx.drop_first() =~= Seq::<Option<int>>::empty());
        assert(qx[0] == x);
        assert(somes(qx.drop_first()) =~= Seq::<int>::empty());
        assert(somes(q) =~= Seq::<int>::empty());
    } else {
        assert(qx.drop_first() =~= q.drop_first().push(x));
        assert(qx[0] == q[0]);
        lemma_somes_push(q.drop_first(), x);
        let r = somes(q.drop_first());
        match q[0] {
            Some(v) => {
                assert(somes(q) == seq![v] + r);
                match x {
                    Some(y) => { assert(somes(qx) == seq![v] + somes(q.drop_first().push(x))); assert(seq![v] + r.push(y) =~= (seq![v] + r).push(y)); }
                    None => {}
                }
            }
            None => {}
        }
    }
}

proof fn lemma_step_preserves(pre: St, st: Step, post: St)
    requires inv(pre), step(pre, st, post)
    ensures inv(post)
{
    match st {
        Step::Submit(m, ok) => { if ok { lemma_somes_push(pre.q, Some(m)); } }
        Step::Take(o) => {}
        Step::Stop => { if room(pre) { lemma_somes_push(pre.q, None); } }
        Step::Idle => {}
    }
}

/// C08 / C15: in EVERY history (any interleaving of producers on any handles with the worker, any
/// outcomes Ok / Err / panic of the wrapped sink, any stop), what was handed to the wrapped sink
/// followed by what is still queued is exactly what was accepted, in acceptance order, each once;
/// submitted / drained count exactly the accepted / delivered metrics, panics the panics; the
/// capacity is never exceeded.
pub proof fn lemma_invariant(s: Seq<St>, steps: Seq<Step>)   // [C08 C10 C15] in every history: delivered ++ queued == accepted (order, exactly once); counters exact; capacity never exceeded
    requires trace_ok(s, steps)
    ensures inv(s.last())
    decreases steps.len()
{
    if steps.len() == 0 {
        assert(s[0].acc =~= s[0].del + somes(s[0].q));
    } else {
        let s0 = s.drop_last(); let t0 = steps.drop_last();
        assert(trace_ok(s0, t0)) by {
            assert forall|i: int| 0 <= i < t0.len() implies step(s0[i], #[trigger] t0[i], s0[i + 1]) by {
                assert(s0[i] == s[i] && s0[i + 1] == s[i + 1] && t0[i] == steps[i]);
            }
        }
        lemma_invariant(s0, t0);
        let n = steps.len() as int;
        assert(s0.last() == s[n - 1]);
        assert(step(s[n - 1], steps[n - 1], s[n]));
        lemma_step_preserves(s[n - 1], steps[n - 1], s[n]);
    }
}

/// C08: whenever nothing is left in the queue, every accepted metric has been handed over exactly
/// once, in acceptance order; C15: then queued == submitted - drained == 0, and at every moment
/// drained <= submitted in the abstract state (the sampled `queued()` saturates, contract c15_queued_total)
pub proof fn lemma_quiescent(s: Seq<St>, steps: Seq<Step>)   // [C08 C11 C15] at quiescence every accepted metric was handed over exactly once, in order, whatever the Ok/Err/panic outcomes; queued == 0; panics counted
    requires trace_ok(s, steps), somes(s.last().q).len() == 0
    ensures s.last().del =~= s.last().acc, s.last().submitted == s.last().drained, s.last().panics == s.last().panicked
{
    lemma_invariant(s, steps);
}

/// histories in which the stop is the LAST thing the handles do: no emit is accepted and no second
/// stop happens once a stop has been requested (all handles are gone)
pub open spec fn handles_gone_after_stop(s: Seq<St>, steps: Seq<Step>) -> bool {
    forall|i: int| 0 <= i < steps.len() ==> ((#[trigger] steps[i] matches Step::Submit(_, ok) && ok) || steps[i] is Stop) ==> !s[i].stop_req
}

pub open spec fn all_some(q: Seq<Option<int>>) -> bool { forall|i: int| 0 <= i < q.len() ==> (#[trigger] q[i]) is Some }
pub open spec fn marker_only_last(q: Seq<Option<int>>) -> bool { forall|i: int| 0 <= i < q.len() && (#[trigger] q[i]) is None ==> i == q.len() - 1 }

pub open spec fn inv2(s: St) -> bool {
    &&& (!s.stop_req ==> all_some(s.q) && s.running)
    &&& marker_only_last(s.q)
    &&& (!s.running ==> s.q.len() == 0)
}

proof fn lemma_step_preserves2(pre: St, st: Step, post: St)
    requires inv2(pre), step(pre, st, post), ((st matches Step::Submit(_, ok) && ok) || st is Stop) ==> !pre.stop_req
    ensures inv2(post)
{
    match st {
        Step::Submit(m, ok) => {
            if ok {
                assert forall|i: int| 0 <= i < post.q.len() implies (#[trigger] post.q[i]) is Some by { if i < pre.q.len() { assert(post.q[i] == pre.q[i]); } }
            }
        }
        Step::Take(o) => {
            assert forall|i: int| 0 <= i < post.q.len() && (#[trigger] post.q[i]) is None implies i == post.q.len() - 1 by { assert(post.q[i] == pre.q[i + 1]); }
            if pre.q[0] is None { assert(0 == pre.q.len() - 1); }
            if !post.stop_req { assert forall|i: int| 0 <= i < post.q.len() implies (#[trigger] post.q[i]) is Some by { assert(post.q[i] == pre.q[i + 1]); } }
        }
        Step::Stop => {
            assert forall|i: int| 0 <= i < post.q.len() && (#[trigger] post.q[i]) is None implies i == post.q.len() - 1 by { if i < pre.q.len() { assert(post.q[i] == pre.q[i]); } }
        }
        Step::Idle => {}
    }
}

/// C09 (and C11, since a Take with outcome Panic is an ordinary step followed by a restart): once the
/// last handle is gone, when the worker loop has ended -- whether it took the marker or, after a stop
/// on a FULL queue where no marker could be queued, found the queue drained -- every metric accepted
/// before the drop has been handed to the wrapped sink, in order, and nothing is left queued.
pub proof fn lemma_stopped_means_drained(s: Seq<St>, steps: Seq<Step>)   // [C09 C11] once the last handle is gone and the worker loop has ended, everything accepted was delivered, for every occupancy at the drop (also a full queue)
    requires trace_ok(s, steps), handles_gone_after_stop(s, steps), !s.last().running
    ensures s.last().del =~= s.last().acc, s.last().q.len() == 0, inv2(s.last())
    decreases steps.len()
{
    lemma_invariant(s, steps);
    lemma_inv2(s, steps);
    assert(somes(s.last().q) =~= Seq::<int>::empty());
}

proof fn lemma_inv2(s: Seq<St>, steps: Seq<Step>)
    requires trace_ok(s, steps), handles_gone_after_stop(s, steps)
    ensures inv2(s.last())
    decreases steps.len()
{
    if steps.len() > 0 {
        let s0 = s.drop_last(); let t0 = steps.drop_last();
        assert(trace_ok(s0, t0)) by {
            assert forall|i: int| 0 <= i < t0.len() implies step(s0[i], #[trigger] t0[i], s0[i + 1]) by {
                assert(s0[i] == s[i] && s0[i + 1] == s[i + 1] && t0[i] == steps[i]);
            }
        }
        assert(handles_gone_after_stop(s0, t0)) by {
            assert forall|i: int| 0 <= i < t0.len() implies (((#[trigger] t0[i] matches Step::Submit(_, ok) && ok) || t0[i] is Stop) ==> !s0[i].stop_req) by {
                assert(t0[i] == steps[i] && s0[i] == s[i]);
            }
        }
        lemma_inv2(s0, t0);
        let n = steps.len() as int;
        assert(s0.last() == s[n - 1]);
        assert(step(s[n - 1], steps[n - 1], s[n]));
        lemma_step_preserves2(s[n - 1], steps[n - 1], s[n]);
    }
}

/// C09: and the worker DOES end: in a state with a stop requested, every enabled worker step either
/// shortens the queue or ends the loop, so after at most |q| + 1 worker steps running is false
pub proof fn lemma_worker_progress(pre: St, st: Step, post: St)   // [C09] with a stop requested every worker step shortens the queue or ends the loop: the thread terminates
    requires inv2(pre), pre.stop_req, pre.running, step(pre, st, post), st is Take || st is Idle
    ensures !post.running || post.q.len() < pre.q.len()
{
}
//@PROBE queue_not_vacuous
proof fn probe_queue_not_vacuous(s: Seq<St>, steps: Seq<Step>)
    requires trace_ok(s, steps), steps.len() == 2
    ensures false
{
    lemma_invariant(s, steps);
}
} // mod queue
}
fn main() {}
