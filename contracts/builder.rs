// Verus template for the formatter half of cadence/src/builder.rs  (properties C01 C02 C04 C20)
// Code bodies are copied from /repo on every run by tools/extract.py; this file carries only the
// trusted models and the contracts.
//@REWRITE X2.formatter :: fmt::Formatter<'_> => String
//@REWRITE X2.fmt_result :: fmt::Result\b => FmtResult
//@REWRITE X5.display_bound :: \bfmt::Display\b => VDisplay
//@REWRITE X9.assoc_const :: \bSelf::TAG_PREFIX\b => TAG_PREFIX
use vstd::prelude::*;
verus! {

// machine-arithmetic assumption (DESIGN 6.7): usize is 64 bits wide
global size_of usize == 8;

pub mod model {
use vstd::prelude::*;
use vstd::string::*;

// ---- TRUSTED: std Display renderings of numbers, as uninterpreted spec functions (DESIGN 6.3)
pub uninterp spec fn dec_i64(v: i64) -> Seq<char>;
pub uninterp spec fn dec_u64(v: u64) -> Seq<char>;
pub uninterp spec fn dec_f64(v: f64) -> Seq<char>;

pub struct FmtError;
pub type FmtResult = Result<(), FmtError>;

// ---- TRUSTED: `impl fmt::Write for String` (infallible, appends)
pub trait VWrite {
    spec fn wview(&self) -> Seq<char>;
    fn write_char(&mut self, c: char) -> (r: FmtResult)
        ensures r.is_ok(), final(self).wview() == old(self).wview().push(c);
}
impl VWrite for String {
    open spec fn wview(&self) -> Seq<char> { self@ }
    #[verifier::external_body]
    fn write_char(&mut self, c: char) -> (r: FmtResult)
    { unimplemented!() }
}

// ---- TRUSTED: std `Display::fmt` appends the rendering and nothing else (rule X5)
pub trait VDisplay {
    spec fn render(&self) -> Seq<char>;
    fn fmt(&self, f: &mut String) -> (r: FmtResult)
        ensures r.is_ok(), final(f)@ == old(f)@ + self.render();
}
impl VDisplay for i64 {
    open spec fn render(&self) -> Seq<char> { dec_i64(*self) }
    #[verifier::external_body]
    fn fmt(&self, f: &mut String) -> (r: FmtResult) { unimplemented!() }
}
impl VDisplay for u64 {
    open spec fn render(&self) -> Seq<char> { dec_u64(*self) }
    #[verifier::external_body]
    fn fmt(&self, f: &mut String) -> (r: FmtResult) { unimplemented!() }
}
impl VDisplay for f64 {
    open spec fn render(&self) -> Seq<char> { dec_f64(*self) }
    #[verifier::external_body]
    fn fmt(&self, f: &mut String) -> (r: FmtResult) { unimplemented!() }
}
impl VDisplay for &str {
    open spec fn render(&self) -> Seq<char> { self@ }
    #[verifier::external_body]
    fn fmt(&self, f: &mut String) -> (r: FmtResult) { unimplemented!() }
}
/// rule X3: a `write!` placeholder other than `{}` renders something this model knows nothing about
#[verifier::external_body]
pub fn vfmt_unconstrained<T>(v: &T, f: &mut String) -> (r: FmtResult)
{ unimplemented!() }

// ---- TRUSTED: String::with_capacity is an empty string (capacity is a hint)
pub assume_specification [ String::with_capacity ] (n: usize) -> (r: String)
    ensures r@ == Seq::<char>::empty();

} // mod model

pub mod spec {
use vstd::prelude::*;
use vstd::string::*;
use super::model::*;

/// byte length of a string (what `str::len()` returns)
pub open spec fn blen(s: &str) -> nat { s.spec_bytes().len() }
pub spec const BIG: nat = 0x0100_0000_0000_0000;   // 2^56: "fits in memory" bound used by the C20 size-hint obligations

/// `v1:v2:...` -- the values joined by ':' in list order
pub open spec fn join_vals<T: VDisplay>(vals: Seq<T>, n: int) -> Seq<char>
    decreases n
{
    if n <= 0 { Seq::empty() }
    else if n == 1 { vals[0].render() }
    else { join_vals(vals, n - 1) + seq![':'] + vals[n - 1].render() }
}

/// one tag: `key:value` or a bare `value`
pub open spec fn tag_text(t: (Option<&str>, &str)) -> Seq<char> {
    match t.0 { Some(k) => k@ + seq![':'] + t.1@, None => t.1@ }
}
/// `tag1,tag2,...` in sequence order
pub open spec fn join_tags(tags: Seq<(Option<&str>, &str)>, n: int) -> Seq<char>
    decreases n
{
    if n <= 0 { Seq::empty() }
    else if n == 1 { tag_text(tags[0]) }
    else { join_tags(tags, n - 1) + seq![','] + tag_text(tags[n - 1]) }
}
} // mod spec

pub mod code {
use vstd::prelude::*;
use vstd::string::*;
use super::model::*;
use super::spec::*;

//@ITEM cadence/src/builder.rs :: enum MetricType\b

impl VDisplay for MetricType {
    /// C01: the type code of each kind (c, ms, g, m, h, s, d)
    closed spec fn render(&self) -> Seq<char> {
        match *self {
            MetricType::Counter => "c"@, MetricType::Timer => "ms"@, MetricType::Gauge => "g"@, MetricType::Meter => "m"@,
            MetricType::Histogram => "h"@, MetricType::Set => "s"@, MetricType::Distribution => "d"@,
        }
    }
    //@FN cadence/src/builder.rs :: impl fmt::Display for MetricType :: fmt :: notwin=1
    // [C01] the rendered type code is the code of the kind (postcondition inherited from VDisplay::fmt: appends exactly render())
    //@END
}

//@ITEM cadence/src/builder.rs :: pub enum MetricValue\b

impl MetricValue {
    pub closed spec fn count_spec(&self) -> nat {
        match self {
            MetricValue::PackedSigned(x) => x@.len(),
            MetricValue::PackedUnsigned(x) => x@.len(),
            MetricValue::PackedFloat(x) => x@.len(),
            _ => 1,
        }
    }
    //@FN cadence/src/builder.rs :: impl MetricValue :: count
        ensures r == self.count_spec(),
    //@END
}

//@FN cadence/src/builder.rs :: - :: write_value
    ensures
        r.is_ok(),
        final(f)@ == old(f)@ + join_vals(vals@, vals@.len() as int),   // [C01 C02] packed values are rendered in list order, joined by ':', each exactly once
//@LOOP 1
        invariant i <= vals@.len(), f@ == old(f)@ + join_vals(vals@, i as int),
        decreases vals@.len() - i,
//@END

impl VDisplay for MetricValue {
    closed spec fn render(&self) -> Seq<char> {
        match self {
            MetricValue::Signed(v) => dec_i64(*v),
            MetricValue::PackedSigned(v) => join_vals(v@, v@.len() as int),
            MetricValue::Unsigned(v) => dec_u64(*v),
            MetricValue::PackedUnsigned(v) => join_vals(v@, v@.len() as int),
            MetricValue::Float(v) => dec_f64(*v),
            MetricValue::PackedFloat(v) => join_vals(v@, v@.len() as int),
        }
    }
    //@FN cadence/src/builder.rs :: impl fmt::Display for MetricValue :: fmt :: notwin=1
    // [C01 C02] a value is rendered by std Display of exactly the number supplied; lists keep length and order
    //@END
}

//@ITEM cadence/src/builder.rs :: pub\(crate\) struct MetricFormatter<'a>

// rule X9: the associated const is hoisted to module level (Verus 0.2026.09.13 crashes on associated consts of a generic impl)
//@ITEM cadence/src/builder.rs :: const TAG_PREFIX

/// the tag section marker is the two ASCII characters `|#`   // [C01] tag section marker is |#
proof fn lemma_tag_prefix_len()
    ensures blen(TAG_PREFIX) == 2, TAG_PREFIX@ == "|#"@,
{
    reveal_strlit("|#");
    assert(TAG_PREFIX.is_ascii());
}

impl<'a> MetricFormatter<'a> {
    // ---- the line, section by section, as the property states it
    pub closed spec fn s_base(&self) -> Seq<char> { self.prefix@ + self.key@ + ":"@ + self.val.render() + "|"@ + self.type_.render() }
    pub closed spec fn s_rate(&self) -> Seq<char> { match self.sampling_rate { Some(r) => "|@"@ + dec_f64(r), None => Seq::empty() } }
    pub closed spec fn s_tags(&self) -> Seq<char> { if self.tags@.len() == 0 { Seq::empty() } else { "|#"@ + join_tags(self.tags@, self.tags@.len() as int) } }
    pub closed spec fn s_cid(&self) -> Seq<char> { match self.container_id { Some(c) => "|c:"@ + c@, None => Seq::empty() } }
    pub closed spec fn s_ts(&self) -> Seq<char> { match self.timestamp { Some(t) => "|T"@ + dec_u64(t), None => Seq::empty() } }
    /// <name>:<v1>[:<v2>...]|<type>[|@<rate>][|#<tag>,...][|c:<container>][|T<timestamp>]
    pub closed spec fn line(&self) -> Seq<char> { self.s_base() + self.s_rate() + self.s_tags() + self.s_cid() + self.s_ts() }

    /// C20 assumption: the inputs of one metric fit in memory together (sizes below 2^58)
    pub closed spec fn mem_ok(&self) -> bool {
        &&& self.base_size < 16 * BIG
        &&& self.kv_size < 4 * BIG
        &&& self.tags@.len() < 4 * BIG
        &&& (self.container_id matches Some(c) ==> blen(c) < 4 * BIG)
        &&& blen(TAG_PREFIX) == 2     // discharged by lemma_tag_prefix_len
    }
    pub closed spec fn same_but_tags(&self, o: &MetricFormatter<'a>) -> bool {
        &&& self.prefix == o.prefix &&& self.key == o.key &&& self.val == o.val &&& self.type_ == o.type_
        &&& self.timestamp == o.timestamp &&& self.sampling_rate == o.sampling_rate &&& self.container_id == o.container_id
        &&& self.base_size == o.base_size
    }

    //@FN cadence/src/builder.rs :: impl<'a> MetricFormatter<'a> :: from_val :: vis=
        requires blen(TAG_PREFIX) == 2,
            blen(prefix) < BIG, blen(key) < BIG, val.count_spec() < BIG,
        ensures
            r.prefix == prefix && r.key == key && r.val == val,    // [C01] name and value are the ones supplied
            r.type_ == type_,                                      // [C01] the kind is the one requested
            r.tags@.len() == 0,                                    // [C04] a fresh metric carries no tags of its own
            r.timestamp.is_none() && r.sampling_rate.is_none() && r.container_id.is_none(),  // [C01] optional sections are absent unless supplied
            r.kv_size == 0, r.mem_ok(),
    //@END

    //@FN cadence/src/builder.rs :: impl<'a> MetricFormatter<'a> :: counter :: vis=
        requires blen(TAG_PREFIX) == 2, blen(prefix) < BIG, blen(key) < BIG, val.count_spec() < BIG,
        ensures r.prefix == prefix && r.key == key && r.val == val && r.tags@.len() == 0 && r.timestamp.is_none() && r.sampling_rate.is_none() && r.container_id.is_none() && r.mem_ok(),
            r.type_ == MetricType::Counter,   // [C01] counter constructor => type code c
    //@END
    //@FN cadence/src/builder.rs :: impl<'a> MetricFormatter<'a> :: timer :: vis=
        requires blen(TAG_PREFIX) == 2, blen(prefix) < BIG, blen(key) < BIG, val.count_spec() < BIG,
        ensures r.prefix == prefix && r.key == key && r.val == val && r.tags@.len() == 0 && r.timestamp.is_none() && r.sampling_rate.is_none() && r.container_id.is_none() && r.mem_ok(),
            r.type_ == MetricType::Timer,   // [C01] timer constructor => type code ms
    //@END
    //@FN cadence/src/builder.rs :: impl<'a> MetricFormatter<'a> :: gauge :: vis=
        requires blen(TAG_PREFIX) == 2, blen(prefix) < BIG, blen(key) < BIG, val.count_spec() < BIG,
        ensures r.prefix == prefix && r.key == key && r.val == val && r.tags@.len() == 0 && r.timestamp.is_none() && r.sampling_rate.is_none() && r.container_id.is_none() && r.mem_ok(),
            r.type_ == MetricType::Gauge,   // [C01] gauge constructor => type code g
    //@END
    //@FN cadence/src/builder.rs :: impl<'a> MetricFormatter<'a> :: meter :: vis=
        requires blen(TAG_PREFIX) == 2, blen(prefix) < BIG, blen(key) < BIG, val.count_spec() < BIG,
        ensures r.prefix == prefix && r.key == key && r.val == val && r.tags@.len() == 0 && r.timestamp.is_none() && r.sampling_rate.is_none() && r.container_id.is_none() && r.mem_ok(),
            r.type_ == MetricType::Meter,   // [C01] meter constructor => type code m
    //@END
    //@FN cadence/src/builder.rs :: impl<'a> MetricFormatter<'a> :: histogram :: vis=
        requires blen(TAG_PREFIX) == 2, blen(prefix) < BIG, blen(key) < BIG, val.count_spec() < BIG,
        ensures r.prefix == prefix && r.key == key && r.val == val && r.tags@.len() == 0 && r.timestamp.is_none() && r.sampling_rate.is_none() && r.container_id.is_none() && r.mem_ok(),
            r.type_ == MetricType::Histogram,   // [C01] histogram constructor => type code h
    //@END
    //@FN cadence/src/builder.rs :: impl<'a> MetricFormatter<'a> :: distribution :: vis=
        requires blen(TAG_PREFIX) == 2, blen(prefix) < BIG, blen(key) < BIG, val.count_spec() < BIG,
        ensures r.prefix == prefix && r.key == key && r.val == val && r.tags@.len() == 0 && r.timestamp.is_none() && r.sampling_rate.is_none() && r.container_id.is_none() && r.mem_ok(),
            r.type_ == MetricType::Distribution,   // [C01] distribution constructor => type code d
    //@END
    //@FN cadence/src/builder.rs :: impl<'a> MetricFormatter<'a> :: set :: vis=
        requires blen(TAG_PREFIX) == 2, blen(prefix) < BIG, blen(key) < BIG, val.count_spec() < BIG,
        ensures r.prefix == prefix && r.key == key && r.val == val && r.tags@.len() == 0 && r.timestamp.is_none() && r.sampling_rate.is_none() && r.container_id.is_none() && r.mem_ok(),
            r.type_ == MetricType::Set,   // [C01] set constructor => type code s
    //@END

    //@FN cadence/src/builder.rs :: impl<'a> MetricFormatter<'a> :: with_tag :: vis=
        requires old(self).mem_ok(), blen(key) < BIG, blen(value) < BIG, old(self).kv_size + blen(key) + blen(value) + 1 < 4 * BIG, old(self).tags@.len() + 1 < 4 * BIG,
        ensures
            final(self).tags@ == old(self).tags@.push((Some(key), value)),   // [C04 C01] a key:value tag is appended after all tags already present
            final(self).same_but_tags(old(self)),                            // [C04 C01] adding a tag changes nothing else
            final(self).mem_ok(),
    //@END

    //@FN cadence/src/builder.rs :: impl<'a> MetricFormatter<'a> :: with_tag_value :: vis=
        requires old(self).mem_ok(), blen(value) < BIG, old(self).kv_size + blen(value) < 4 * BIG, old(self).tags@.len() + 1 < 4 * BIG,
        ensures
            final(self).tags@ == old(self).tags@.push((None, value)),        // [C04 C01] a bare tag is appended after all tags already present
            final(self).same_but_tags(old(self)),                            // [C04 C01] adding a tag changes nothing else
            final(self).mem_ok(),
    //@END

    //@FN cadence/src/builder.rs :: impl<'a> MetricFormatter<'a> :: with_timestamp :: vis=
        ensures old(self).mem_ok() ==> final(self).mem_ok(), final(self).timestamp == Some(timestamp),                    // [C01] the timestamp supplied is the one recorded
            final(self).tags == old(self).tags && final(self).prefix == old(self).prefix && final(self).key == old(self).key && final(self).val == old(self).val
            && final(self).type_ == old(self).type_ && final(self).sampling_rate == old(self).sampling_rate && final(self).container_id == old(self).container_id
            && final(self).base_size == old(self).base_size && final(self).kv_size == old(self).kv_size,   // [C01 C04] nothing else changes
    //@END
    //@FN cadence/src/builder.rs :: impl<'a> MetricFormatter<'a> :: with_container_id :: vis=
        requires old(self).mem_ok(), blen(container_id) < BIG,
        ensures final(self).mem_ok(), final(self).container_id == Some(container_id),              // [C04 C01] a container id supplied later replaces the one present
            final(self).tags == old(self).tags && final(self).prefix == old(self).prefix && final(self).key == old(self).key && final(self).val == old(self).val
            && final(self).type_ == old(self).type_ && final(self).sampling_rate == old(self).sampling_rate && final(self).timestamp == old(self).timestamp
            && final(self).base_size == old(self).base_size && final(self).kv_size == old(self).kv_size,   // [C01 C04] nothing else changes
    //@END
    //@FN cadence/src/builder.rs :: impl<'a> MetricFormatter<'a> :: with_sampling_rate :: vis=
        ensures old(self).mem_ok() ==> final(self).mem_ok(), final(self).sampling_rate == Some(rate),                     // [C01 C02] the sampling rate supplied is the one recorded
            final(self).tags == old(self).tags && final(self).prefix == old(self).prefix && final(self).key == old(self).key && final(self).val == old(self).val
            && final(self).type_ == old(self).type_ && final(self).timestamp == old(self).timestamp && final(self).container_id == old(self).container_id
            && final(self).base_size == old(self).base_size && final(self).kv_size == old(self).kv_size,   // [C01 C04] nothing else changes
    //@END

    //@FN cadence/src/builder.rs :: impl<'a> MetricFormatter<'a> :: write_base_metric :: vis=
        ensures final(out)@ == old(out)@ + self.s_base(),                    // [C01] <prefix><key>:<values>|<type>
    //@END
    //@FN cadence/src/builder.rs :: impl<'a> MetricFormatter<'a> :: write_sampling_rate :: vis=
        ensures final(out)@ == old(out)@ + self.s_rate(),                    // [C01 C02] |@<rate> exactly when a rate was supplied
    //@END
    //@FN cadence/src/builder.rs :: impl<'a> MetricFormatter<'a> :: write_tags :: vis=
        ensures final(out)@ == old(out)@ + self.s_tags(),                    // [C01 C04] |#tag,... exactly when there are tags, in vector order, key:value or bare
    //@LOOP 1
                invariant i <= self.tags@.len(), out@ == old(out)@ + "|#"@ + join_tags(self.tags@, i as int),
                decreases self.tags@.len() - i,
    //@END
    //@FN cadence/src/builder.rs :: impl<'a> MetricFormatter<'a> :: write_timestamp :: vis=
        ensures final(out)@ == old(out)@ + self.s_ts(),                      // [C01] |T<timestamp> exactly when a timestamp was supplied
    //@END
    //@FN cadence/src/builder.rs :: impl<'a> MetricFormatter<'a> :: write_container_id :: vis=
        ensures final(out)@ == old(out)@ + self.s_cid(),                     // [C01 C04] |c:<id> exactly when a container id is present
    //@END

    //@FN cadence/src/builder.rs :: impl<'a> MetricFormatter<'a> :: tag_size_hint :: vis=
        requires self.mem_ok(),
        ensures r < 16 * BIG,
    //@END
    //@FN cadence/src/builder.rs :: impl<'a> MetricFormatter<'a> :: timestamp_size_hint :: vis=
        ensures r <= 12,
    //@END
    //@FN cadence/src/builder.rs :: impl<'a> MetricFormatter<'a> :: sampling_rate_size_hint :: vis=
        ensures r <= 19,
    //@END
    //@FN cadence/src/builder.rs :: impl<'a> MetricFormatter<'a> :: container_id_size_hint :: vis=
        requires self.mem_ok(),
        ensures r < 8 * BIG,
    //@END
    //@FN cadence/src/builder.rs :: impl<'a> MetricFormatter<'a> :: size_hint :: vis=
        requires self.mem_ok(),
    //@END

    //@FN cadence/src/builder.rs :: impl<'a> MetricFormatter<'a> :: format :: vis=
        requires self.mem_ok(),
        ensures r@ == self.line(),   // [C01 C04?] the text is exactly name:values|type[|@rate][|#tags][|c:container][|Ttimestamp], sections in that order, each exactly when supplied
    //@END
}

} // mod code
}
fn main() {}
