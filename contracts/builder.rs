// Verus template for the formatter half of cadence/src/builder.rs  (properties C01 C02 C04 C20)
// Code bodies are copied from /repo on every run by tools/extract.py; this file carries only the
// trusted models and the contracts.
//@REWRITE X2.formatter :: fmt::Formatter<'_> => String
//@REWRITE X2.fmt_result :: fmt::Result\b => FmtResult
//@REWRITE X5.display_bound :: \bfmt::Display\b => VDisplay
//@REWRITE X9.assoc_const :: \bSelf::TAG_PREFIX\b => TAG_PREFIX
use vstd::prelude::*;
verus! {

// machine-arithmetic assumption (DESIGN 6.7): usize is 64 bits wide
global size_of usize == 8;

pub mod model {
use vstd::prelude::*;
use vstd::string::*;

// ---- TRUSTED: std Display renderings of numbers, as uninterpreted spec functions (DESIGN 6.3)
pub uninterp spec fn dec_i64(v: i64) -> Seq<char>;
pub uninterp spec fn dec_u64(v: u64) -> Seq<char>;
pub uninterp spec fn dec_f64(v: f64) -> Seq<char>;

pub struct FmtError;
pub type FmtResult = Result<(), FmtError>;

// ---- TRUSTED: `impl fmt::Write for String` (infallible, appends)
pub trait VWrite {
    spec fn wview(&self) -> Seq<char>;
    fn write_char(&mut self, c: char) -> (r: FmtResult)
        ensures r.is_ok(), final(self).wview() == old(self).wview().push(c);
}
impl VWrite for String {
    open spec fn wview(&self) -> Seq<char> { self@ }
    #[verifier::external_body]
    fn write_char(&mut self, c: char) -> (r: FmtResult)
    { unimplemented!() }
}

// ---- TRUSTED: std `Display::fmt` appends the rendering and nothing else (rule X5)
pub trait VDisplay {
    spec fn render(&self) -> Seq<char>;
    fn fmt(&self, f: &mut String) -> (r: FmtResult)
        ensures r.is_ok(), final(f)@ == old(f)@ + self.render();   // [C01 C02] Display appends exactly the rendering of the value: the std numeral of exactly the number supplied, the code of the kind, the values of a list in order
}
impl VDisplay for i64 {
    open spec fn render(&self) -> Seq<char> { dec_i64(*self) }
    #[verifier::external_body]
    fn fmt(&self, f: &mut String) -> (r: FmtResult) { unimplemented!() }
}
impl VDisplay for u64 {
    open spec fn render(&self) -> Seq<char> { dec_u64(*self) }
    #[verifier::external_body]
    fn fmt(&self, f: &mut String) -> (r: FmtResult) { unimplemented!() }
}
impl VDisplay for f64 {
    open spec fn render(&self) -> Seq<char> { dec_f64(*self) }
    #[verifier::external_body]
    fn fmt(&self, f: &mut String) -> (r: FmtResult) { unimplemented!() }
}
impl VDisplay for &str {
    open spec fn render(&self) -> Seq<char> { self@ }
    #[verifier::external_body]
    fn fmt(&self, f: &mut String) -> (r: FmtResult) { unimplemented!() }
}
/// rule X3: a `write!` placeholder other than `{}` renders something this model knows nothing about
#[verifier::external_body]
pub fn vfmt_unconstrained<T>(v: &T, f: &mut String) -> (r: FmtResult)
{ unimplemented!() }

// ---- TRUSTED: String::with_capacity is an empty string (capacity is a hint)
pub assume_specification [ String::with_capacity ] (n: usize) -> (r: String)
    ensures r@ == Seq::<char>::empty();

} // mod model

pub mod spec {
use vstd::prelude::*;
use vstd::string::*;
use super::model::*;

/// byte length of a string (what `str::len()` returns)
pub open spec fn blen(s: &str) -> nat { s.spec_bytes().len() }
pub spec const BIG: nat = 0x0100_0000_0000_0000;   // 2^56: "fits in memory" bound used by the C20 size-hint obligations

/// `v1:v2:...` -- the values joined by ':' in list order
pub open spec fn join_vals<T: VDisplay>(vals: Seq<T>, n: int) -> Seq<char>
    decreases n
{
    if n <= 0 { Seq::empty() }
    else if n == 1 { vals[0].render() }
    else { join_vals(vals, n - 1) + seq![':'] + vals[n - 1].render() }
}

/// one tag: `key:value` or a bare `value`
pub open spec fn tag_text(t: (Option<&str>, &str)) -> Seq<char> {
    match t.0 { Some(k) => k@ + seq![':'] + t.1@, None => t.1@ }
}
/// `tag1,tag2,...` in sequence order
pub open spec fn join_tags(tags: Seq<(Option<&str>, &str)>, n: int) -> Seq<char>
    decreases n
{
    if n <= 0 { Seq::empty() }
    else if n == 1 { tag_text(tags[0]) }
    else { join_tags(tags, n - 1) + seq![','] + tag_text(tags[n - 1]) }
}
} // mod spec

pub mod roundtrip {
// ---------------------------------------------------------------------------------------------
// C01, second sentence (pure lemma track): the line as TEXT, its parser, and the theorem
// wf(f) ==> parse(text_line(f)) == f.  The formatter's line() is connected to text_line() by
// MetricFormatter::lemma_line_is_text in module `code`.
// ---------------------------------------------------------------------------------------------
use vstd::prelude::*;


pub open spec fn free(s: Seq<char>, c: char) -> bool { forall|i: int| 0 <= i < s.len() ==> s[i] != c }

pub open spec fn index_of(s: Seq<char>, c: char) -> int
    decreases s.len()
{
    if s.len() == 0 { 0 } else if s[0] == c { 0 } else { 1 + index_of(s.drop_first(), c) }
}
pub open spec fn occurs(s: Seq<char>, c: char) -> bool { index_of(s, c) < s.len() }
pub open spec fn head(s: Seq<char>, c: char) -> Seq<char> { s.subrange(0, index_of(s, c)) }
pub open spec fn tail(s: Seq<char>, c: char) -> Seq<char> { if occurs(s, c) { s.subrange(index_of(s, c) + 1, s.len() as int) } else { Seq::empty() } }

pub proof fn lemma_index_bounds(s: Seq<char>, c: char)
    ensures 0 <= index_of(s, c) <= s.len()
    decreases s.len()
{
    if s.len() > 0 && s[0] != c { lemma_index_bounds(s.drop_first(), c); }
}

pub proof fn lemma_free_no_index(a: Seq<char>, c: char)
    requires free(a, c)
    ensures index_of(a, c) == a.len(), !occurs(a, c)
    decreases a.len()
{
    if a.len() > 0 {
        assert(a[0] != c);
        assert(free(a.drop_first(), c)) by {
            assert forall|i: int| 0 <= i < a.drop_first().len() implies a.drop_first()[i] != c by { assert(a.drop_first()[i] == a[i + 1]); }
        }
        lemma_free_no_index(a.drop_first(), c);
    }
}

pub proof fn lemma_index_of(a: Seq<char>, c: char, b: Seq<char>)
    requires free(a, c)
    ensures index_of(a + seq![c] + b, c) == a.len()
    decreases a.len()
{
    let s = a + seq![c] + b;
    if a.len() == 0 {
        assert(s[0] == c);
    } else {
        assert(s[0] == a[0]);
        assert(s.drop_first() =~= a.drop_first() + seq![c] + b);
        assert(free(a.drop_first(), c)) by {
            assert forall|i: int| 0 <= i < a.drop_first().len() implies a.drop_first()[i] != c by { assert(a.drop_first()[i] == a[i + 1]); }
        }
        lemma_index_of(a.drop_first(), c, b);
    }
}

/// the first separator of a ++ [c] ++ b with c not in a is at |a|
pub proof fn lemma_split_first(a: Seq<char>, c: char, b: Seq<char>)
    requires free(a, c)
    ensures occurs(a + seq![c] + b, c), head(a + seq![c] + b, c) =~= a, tail(a + seq![c] + b, c) =~= b
{
    lemma_index_of(a, c, b);
}

// ---- split everywhere / join
pub open spec fn split(s: Seq<char>, c: char) -> Seq<Seq<char>>
    decreases s.len()
{
    if !occurs(s, c) { seq![s] } else {
        // tail is strictly shorter
        if tail(s, c).len() < s.len() { seq![head(s, c)] + split(tail(s, c), c) } else { seq![s] }
    }
}
pub open spec fn join(parts: Seq<Seq<char>>, c: char) -> Seq<char>
    decreases parts.len()
{
    if parts.len() == 0 { Seq::empty() }
    else if parts.len() == 1 { parts[0] }
    else { parts[0] + seq![c] + join(parts.drop_first(), c) }
}
pub open spec fn all_free(parts: Seq<Seq<char>>, c: char) -> bool { forall|i: int| 0 <= i < parts.len() ==> free(#[trigger] parts[i], c) }

pub proof fn lemma_split_join(parts: Seq<Seq<char>>, c: char)
    requires parts.len() >= 1, all_free(parts, c)
    ensures split(join(parts, c), c) =~= parts
    decreases parts.len()
{
    if parts.len() == 1 {
        lemma_free_no_index(parts[0], c);
    } else {
        let rest = parts.drop_first();
        assert(all_free(rest, c)) by { assert forall|i: int| 0 <= i < rest.len() implies free(#[trigger] rest[i], c) by { assert(rest[i] == parts[i + 1]); } }
        lemma_split_join(rest, c);
        let s = join(parts, c);
        assert(s == parts[0] + seq![c] + join(rest, c));
        lemma_split_first(parts[0], c, join(rest, c));
        assert(tail(s, c).len() < s.len());
        assert(split(s, c) =~= seq![parts[0]] + rest);
    }
}

// ------------------------------------------------------------------------------------------
// the line as text, and its parser
// ------------------------------------------------------------------------------------------
pub struct Fields {
    pub name: Seq<char>,
    pub vals: Seq<Seq<char>>,
    pub code: Seq<char>,
    pub rate: Option<Seq<char>>,
    pub tags: Seq<(Option<Seq<char>>, Seq<char>)>,
    pub cid: Option<Seq<char>>,
    pub ts: Option<Seq<char>>,
}

pub open spec fn tag_txt(t: (Option<Seq<char>>, Seq<char>)) -> Seq<char> {
    match t.0 { Some(k) => k + seq![':'] + t.1, None => t.1 }
}
pub open spec fn tag_txts(tags: Seq<(Option<Seq<char>>, Seq<char>)>) -> Seq<Seq<char>> {
    Seq::new(tags.len(), |i: int| tag_txt(tags[i]))
}
pub open spec fn opt_sec(o: Option<Seq<char>>, marker: Seq<char>) -> Seq<Seq<char>> {
    match o { Some(x) => seq![marker + x], None => Seq::empty() }
}
pub open spec fn tag_sec(tags: Seq<(Option<Seq<char>>, Seq<char>)>) -> Seq<Seq<char>> {
    if tags.len() == 0 { Seq::empty() } else { seq![seq!['#'] + join(tag_txts(tags), ',')] }
}
pub open spec fn sections(f: Fields) -> Seq<Seq<char>> {
    seq![join(f.vals, ':'), f.code] + opt_sec(f.rate, seq!['@']) + tag_sec(f.tags) + opt_sec(f.cid, seq!['c', ':']) + opt_sec(f.ts, seq!['T'])
}
/// <name>:<v1>[:<v2>...]|<type>[|@<rate>][|#<tag>,...][|c:<container>][|T<timestamp>]
pub open spec fn text_line(f: Fields) -> Seq<char> {
    f.name + seq![':'] + join(sections(f), '|')
}

pub open spec fn parse_tag(t: Seq<char>) -> (Option<Seq<char>>, Seq<char>) {
    if occurs(t, ':') { (Some(head(t, ':')), tail(t, ':')) } else { (None, t) }
}
pub open spec fn parse_tags(s: Seq<char>) -> Seq<(Option<Seq<char>>, Seq<char>)> {
    let parts = split(s, ',');
    Seq::new(parts.len(), |i: int| parse_tag(parts[i]))
}
pub open spec fn starts1(s: Seq<char>, c: char) -> bool { s.len() >= 1 && s[0] == c }
pub open spec fn starts2(s: Seq<char>, c: char, d: char) -> bool { s.len() >= 2 && s[0] == c && s[1] == d }

pub open spec fn parse(s: Seq<char>) -> Fields {
    let secs = split(tail(s, ':'), '|');
    let n = secs.len() as int;
    let has_rate = 2 < n && starts1(secs[2], '@');
    let i3 = if has_rate { 3int } else { 2int };
    let has_tags = i3 < n && starts1(secs[i3], '#');
    let i4 = if has_tags { i3 + 1 } else { i3 };
    let has_cid = i4 < n && starts2(secs[i4], 'c', ':');
    let i5 = if has_cid { i4 + 1 } else { i4 };
    let has_ts = i5 < n && starts1(secs[i5], 'T');
    Fields {
        name: head(s, ':'),
        vals: split(secs[0], ':'),
        code: if n > 1 { secs[1] } else { Seq::empty() },
        rate: if has_rate { Some(secs[2].drop_first()) } else { None },
        tags: if has_tags { parse_tags(secs[i3].drop_first()) } else { Seq::empty() },
        cid: if has_cid { Some(secs[i4].subrange(2, secs[i4].len() as int)) } else { None },
        ts: if has_ts { Some(secs[i5].drop_first()) } else { None },
    }
}

pub open spec fn opt_free(o: Option<Seq<char>>, c: char) -> bool { match o { Some(x) => free(x, c), None => true } }
pub open spec fn tag_ok(t: (Option<Seq<char>>, Seq<char>)) -> bool {
    &&& free(t.1, ':') && free(t.1, ',') && free(t.1, '|')
    &&& (t.0 matches Some(k) ==> free(k, ':') && free(k, ',') && free(k, '|'))
}
/// "the supplied strings contain none of the delimiters"
pub open spec fn wf(f: Fields) -> bool {
    &&& free(f.name, ':')
    &&& f.vals.len() >= 1
    &&& all_free(f.vals, ':') && all_free(f.vals, '|')
    &&& free(f.code, '|')
    &&& opt_free(f.rate, '|') && opt_free(f.cid, '|') && opt_free(f.ts, '|')
    &&& forall|i: int| 0 <= i < f.tags.len() ==> tag_ok(#[trigger] f.tags[i])
}

pub proof fn lemma_free_concat(a: Seq<char>, b: Seq<char>, c: char)
    requires free(a, c), free(b, c)
    ensures free(a + b, c)
{
    assert forall|i: int| 0 <= i < (a + b).len() implies (a + b)[i] != c by {
        if i < a.len() { assert((a + b)[i] == a[i]); } else { assert((a + b)[i] == b[i - a.len()]); }
    }
}

pub proof fn lemma_join_free(parts: Seq<Seq<char>>, sep: char, c: char)
    requires all_free(parts, c), sep != c
    ensures free(join(parts, sep), c)
    decreases parts.len()
{
    if parts.len() == 0 {
    } else if parts.len() == 1 {
    } else {
        let rest = parts.drop_first();
        assert(all_free(rest, c)) by { assert forall|i: int| 0 <= i < rest.len() implies free(#[trigger] rest[i], c) by { assert(rest[i] == parts[i + 1]); } }
        lemma_join_free(rest, sep, c);
        assert(free(seq![sep], c));
        lemma_free_concat(parts[0], seq![sep], c);
        lemma_free_concat(parts[0] + seq![sep], join(rest, sep), c);
    }
}

pub proof fn lemma_parse_tag(t: (Option<Seq<char>>, Seq<char>))
    requires tag_ok(t)
    ensures parse_tag(tag_txt(t)).0 == t.0 || (parse_tag(tag_txt(t)).0 matches Some(k) && t.0 matches Some(k2) && k =~= k2),
        parse_tag(tag_txt(t)).1 =~= t.1,
        (parse_tag(tag_txt(t)).0 is Some) == (t.0 is Some),
{
    match t.0 {
        Some(k) => { lemma_split_first(k, ':', t.1); }
        None => { lemma_free_no_index(t.1, ':'); }
    }
}

pub open spec fn same_opt(a: Option<Seq<char>>, b: Option<Seq<char>>) -> bool {
    match (a, b) { (Some(x), Some(y)) => x =~= y, (None, None) => true, _ => false }
}
pub open spec fn same_fields(a: Fields, b: Fields) -> bool {
    &&& a.name =~= b.name
    &&& a.vals.len() == b.vals.len() && (forall|i: int| 0 <= i < a.vals.len() ==> #[trigger] a.vals[i] =~= b.vals[i])
    &&& a.code =~= b.code
    &&& same_opt(a.rate, b.rate) && same_opt(a.cid, b.cid) && same_opt(a.ts, b.ts)
    &&& a.tags.len() == b.tags.len()
    &&& forall|i: int| 0 <= i < a.tags.len() ==> same_opt((#[trigger] a.tags[i]).0, b.tags[i].0) && a.tags[i].1 =~= b.tags[i].1
}

proof fn lemma_tag_txts_free(tags: Seq<(Option<Seq<char>>, Seq<char>)>)
    requires forall|i: int| 0 <= i < tags.len() ==> tag_ok(#[trigger] tags[i])
    ensures all_free(tag_txts(tags), ','), all_free(tag_txts(tags), '|')
{
    assert forall|i: int| 0 <= i < tag_txts(tags).len() implies free(#[trigger] tag_txts(tags)[i], ',') && free(tag_txts(tags)[i], '|') by {
        let t = tags[i];
        assert(tag_ok(t));
        match t.0 {
            Some(k) => {
                assert(free(seq![':'], ',') && free(seq![':'], '|'));
                lemma_free_concat(k, seq![':'], ','); lemma_free_concat(k + seq![':'], t.1, ',');
                lemma_free_concat(k, seq![':'], '|'); lemma_free_concat(k + seq![':'], t.1, '|');
            }
            None => {}
        }
    }
}

proof fn lemma_sections_free(f: Fields)
    requires wf(f)
    ensures all_free(sections(f), '|')
{
    lemma_join_free(f.vals, ':', '|');
    lemma_tag_txts_free(f.tags);
    lemma_join_free(tag_txts(f.tags), ',', '|');
    assert(free(seq!['@'], '|') && free(seq!['#'], '|') && free(seq!['c', ':'], '|') && free(seq!['T'], '|'));
    if f.rate is Some { lemma_free_concat(seq!['@'], f.rate->Some_0, '|'); }
    if f.tags.len() > 0 { lemma_free_concat(seq!['#'], join(tag_txts(f.tags), ','), '|'); }
    if f.cid is Some { lemma_free_concat(seq!['c', ':'], f.cid->Some_0, '|'); }
    if f.ts is Some { lemma_free_concat(seq!['T'], f.ts->Some_0, '|'); }
    let secs = sections(f);
    assert forall|i: int| 0 <= i < secs.len() implies free(#[trigger] secs[i], '|') by {
        let a = seq![join(f.vals, ':'), f.code];
        let b = opt_sec(f.rate, seq!['@']);
        let c = tag_sec(f.tags);
        let d = opt_sec(f.cid, seq!['c', ':']);
        let e = opt_sec(f.ts, seq!['T']);
        assert(secs == a + b + c + d + e);
        if i < 2 { assert(secs[i] == a[i]); }
        else if i < 2 + b.len() { assert(secs[i] == b[i - 2]); }
        else if i < 2 + b.len() + c.len() { assert(secs[i] == c[i - 2 - b.len()]); }
        else if i < 2 + b.len() + c.len() + d.len() { assert(secs[i] == d[i - 2 - b.len() - c.len()]); }
        else { assert(secs[i] == e[i - 2 - b.len() - c.len() - d.len()]); }
    }
}

/// C01, second sentence: whenever the supplied strings contain none of the delimiters, parsing the
/// line back yields exactly the supplied name, value list, kind, rate, tag sequence (key:value or
/// bare value, in order), container id and timestamp.
pub proof fn theorem_round_trip(f: Fields)
    requires wf(f)
    ensures same_fields(parse(text_line(f)), f)
{
    let secs = sections(f);
    let j = join(secs, '|');
    let s = text_line(f);
    lemma_sections_free(f);
    lemma_split_first(f.name, ':', j);
    assert(tail(s, ':') =~= j);
    lemma_split_join(secs, '|');
    let ps = split(tail(s, ':'), '|');
    assert(ps =~= secs);
    lemma_split_join(f.vals, ':');
    let a = seq![join(f.vals, ':'), f.code];
    let b = opt_sec(f.rate, seq!['@']);
    let c = tag_sec(f.tags);
    let d = opt_sec(f.cid, seq!['c', ':']);
    let e = opt_sec(f.ts, seq!['T']);
    assert(secs == a + b + c + d + e);
    assert(secs[0] == a[0] && secs[1] == a[1]);
    let n = secs.len() as int;
    // position of each optional section
    let i3 = 2 + b.len() as int;
    let i4 = i3 + c.len() as int;
    let i5 = i4 + d.len() as int;
    if b.len() > 0 { assert(secs[2] == b[0]); assert(b[0].drop_first() =~= f.rate->Some_0); }
    if c.len() > 0 { assert(secs[i3] == c[0]); }
    if d.len() > 0 { assert(secs[i4] == d[0]); assert(d[0].subrange(2, d[0].len() as int) =~= f.cid->Some_0); }
    if e.len() > 0 { assert(secs[i5] == e[0]); assert(e[0].drop_first() =~= f.ts->Some_0); }
    // the first characters of the sections are distinct markers, so each optional section is recognised
    // exactly when present
    assert(b.len() > 0 ==> starts1(secs[2], '@'));
    assert(b.len() == 0 && 2 < n ==> !starts1(secs[2], '@')) by {
        if b.len() == 0 && 2 < n {
            if c.len() > 0 { assert(secs[2] == c[0]); } else if d.len() > 0 { assert(secs[2] == d[0]); } else { assert(secs[2] == e[0]); }
        }
    }
    assert(c.len() > 0 ==> starts1(secs[i3], '#'));
    assert(c.len() == 0 && i3 < n ==> !starts1(secs[i3], '#')) by {
        if c.len() == 0 && i3 < n { if d.len() > 0 { assert(secs[i3] == d[0]); } else { assert(secs[i3] == e[0]); } }
    }
    assert(d.len() > 0 ==> starts2(secs[i4], 'c', ':'));
    assert(d.len() == 0 && i4 < n ==> !starts2(secs[i4], 'c', ':')) by {
        if d.len() == 0 && i4 < n { assert(secs[i4] == e[0]); }
    }
    assert(e.len() > 0 ==> starts1(secs[i5], 'T'));
    assert(e.len() == 0 ==> i5 >= n);
    // tags
    if c.len() > 0 {
        let tt = tag_txts(f.tags);
        lemma_tag_txts_free(f.tags);
        lemma_split_join(tt, ',');
        assert(c[0].drop_first() =~= join(tt, ','));
        let pt = parse_tags(c[0].drop_first());
        assert(split(join(tt, ','), ',') =~= tt);
        assert(pt.len() == f.tags.len());
        assert forall|i: int| 0 <= i < pt.len() implies same_opt((#[trigger] pt[i]).0, f.tags[i].0) && pt[i].1 =~= f.tags[i].1 by {
            lemma_parse_tag(f.tags[i]);
            assert(split(c[0].drop_first(), ',')[i] =~= tag_txt(f.tags[i]));
        }
    }
    let p = parse(s);
    assert(p.name =~= f.name);
    assert(p.vals =~= f.vals);
    assert(p.code =~= f.code);
}

/// front-recursive join agrees with appending at the back
pub proof fn lemma_join_push(parts: Seq<Seq<char>>, x: Seq<char>, c: char)
    requires parts.len() >= 1
    ensures join(parts.push(x), c) =~= join(parts, c) + seq![c] + x
    decreases parts.len()
{
    if parts.len() == 1 {
        assert(parts.push(x).drop_first() =~= seq![x]);
        assert(join(seq![x], c) == x);
    } else {
        let rest = parts.drop_first();
        assert(parts.push(x).drop_first() =~= rest.push(x));
        lemma_join_push(rest, x, c);
    }
}

pub open spec fn opt_txt(o: Option<Seq<char>>, marker: Seq<char>) -> Seq<char> {
    match o { Some(x) => seq!['|'] + marker + x, None => Seq::empty() }
}
pub open spec fn tags_txt(tags: Seq<(Option<Seq<char>>, Seq<char>)>) -> Seq<char> {
    if tags.len() == 0 { Seq::empty() } else { seq!['|', '#'] + join(tag_txts(tags), ',') }
}

proof fn lemma_join_opt(parts: Seq<Seq<char>>, o: Option<Seq<char>>, marker: Seq<char>)
    requires parts.len() >= 1
    ensures join(parts + opt_sec(o, marker), '|') =~= join(parts, '|') + opt_txt(o, marker),
        (parts + opt_sec(o, marker)).len() >= 1,
{
    match o {
        Some(x) => { assert(parts + opt_sec(o, marker) =~= parts.push(marker + x)); lemma_join_push(parts, marker + x, '|'); }
        None => { assert(parts + opt_sec(o, marker) =~= parts); }
    }
}
proof fn lemma_join_tagsec(parts: Seq<Seq<char>>, tags: Seq<(Option<Seq<char>>, Seq<char>)>)
    requires parts.len() >= 1
    ensures join(parts + tag_sec(tags), '|') =~= join(parts, '|') + tags_txt(tags),
        (parts + tag_sec(tags)).len() >= 1,
{
    if tags.len() > 0 {
        let x = seq!['#'] + join(tag_txts(tags), ',');
        assert(parts + tag_sec(tags) =~= parts.push(x));
        lemma_join_push(parts, x, '|');
        assert(seq!['|'] + x =~= seq!['|', '#'] + join(tag_txts(tags), ','));
    } else {
        assert(parts + tag_sec(tags) =~= parts);
    }
}

/// the line, section after section (the shape the formatter's contract uses)
pub proof fn lemma_text_line_flat(f: Fields)
    ensures text_line(f) =~= f.name + seq![':'] + join(f.vals, ':') + seq!['|'] + f.code
        + opt_txt(f.rate, seq!['@']) + tags_txt(f.tags) + opt_txt(f.cid, seq!['c', ':']) + opt_txt(f.ts, seq!['T'])
{
    let s0 = seq![join(f.vals, ':'), f.code];
    assert(s0 =~= seq![join(f.vals, ':')].push(f.code));
    lemma_join_push(seq![join(f.vals, ':')], f.code, '|');
    let s1 = s0 + opt_sec(f.rate, seq!['@']);
    lemma_join_opt(s0, f.rate, seq!['@']);
    let s2 = s1 + tag_sec(f.tags);
    lemma_join_tagsec(s1, f.tags);
    let s3 = s2 + opt_sec(f.cid, seq!['c', ':']);
    lemma_join_opt(s2, f.cid, seq!['c', ':']);
    let s4 = s3 + opt_sec(f.ts, seq!['T']);
    lemma_join_opt(s3, f.ts, seq!['T']);
    assert(sections(f) == s4);
}


// ---- must-fail probes for the round-trip development
//@PROBE roundtrip_needs_delimiter_freedom
proof fn probe_roundtrip_needs_wf(f: Fields)
    ensures same_fields(parse(text_line(f)), f)
{
    lemma_text_line_flat(f);
}
//@PROBE roundtrip_not_vacuous
proof fn probe_roundtrip_not_vacuous(f: Fields)
    requires wf(f)
    ensures false
{
    theorem_round_trip(f);
}
} // mod roundtrip

pub mod code {
use vstd::prelude::*;
use vstd::string::*;
use super::model::*;
use super::spec::*;
use super::roundtrip::*;

pub open spec fn render_seq<T: VDisplay>(vals: Seq<T>) -> Seq<Seq<char>> { Seq::new(vals.len(), |i: int| vals[i].render()) }

pub proof fn lemma_join_vals_front<T: VDisplay>(vals: Seq<T>, n: int)
    requires 1 <= n <= vals.len()
    ensures join_vals(vals, n) =~= join(render_seq(vals).subrange(0, n), ':')
    decreases n
{
    let rs = render_seq(vals);
    if n == 1 {
        assert(rs.subrange(0, 1) =~= seq![rs[0]]);
    } else {
        lemma_join_vals_front(vals, n - 1);
        assert(rs.subrange(0, n) =~= rs.subrange(0, n - 1).push(rs[n - 1]));
        lemma_join_push(rs.subrange(0, n - 1), rs[n - 1], ':');
    }
}

//@ITEM cadence/src/builder.rs :: enum MetricType\b

impl VDisplay for MetricType {
    /// C01: the type code of each kind (c, ms, g, m, h, s, d)
    closed spec fn render(&self) -> Seq<char> {
        match *self {
            MetricType::Counter => "c"@, MetricType::Timer => "ms"@, MetricType::Gauge => "g"@, MetricType::Meter => "m"@,
            MetricType::Histogram => "h"@, MetricType::Set => "s"@, MetricType::Distribution => "d"@,
        }
    }
    //@FN cadence/src/builder.rs :: impl fmt::Display for MetricType :: fmt :: notwin=1
    // [C01] the rendered type code is the code of the kind (postcondition inherited from VDisplay::fmt: appends exactly render())
    //@END
}

//@ITEM cadence/src/builder.rs :: pub enum MetricValue\b

impl MetricValue {
    pub closed spec fn count_spec(&self) -> nat {
        match self {
            MetricValue::PackedSigned(x) => x@.len(),
            MetricValue::PackedUnsigned(x) => x@.len(),
            MetricValue::PackedFloat(x) => x@.len(),
            _ => 1,
        }
    }
    /// the list of rendered values (one element for a scalar)
    pub closed spec fn rendered(&self) -> Seq<Seq<char>> {
        match self {
            MetricValue::Signed(v) => seq![dec_i64(*v)],
            MetricValue::PackedSigned(v) => Seq::new(v@.len(), |i: int| dec_i64(v@[i])),
            MetricValue::Unsigned(v) => seq![dec_u64(*v)],
            MetricValue::PackedUnsigned(v) => Seq::new(v@.len(), |i: int| dec_u64(v@[i])),
            MetricValue::Float(v) => seq![dec_f64(*v)],
            MetricValue::PackedFloat(v) => Seq::new(v@.len(), |i: int| dec_f64(v@[i])),
        }
    }
    proof fn lemma_rendered(&self)
        requires self.count_spec() >= 1
        ensures self.render() =~= join(self.rendered(), ':'), self.rendered().len() == self.count_spec()
    {
        match self {
            MetricValue::PackedSigned(v) => { lemma_join_vals_front(v@, v@.len() as int); assert(render_seq(v@).subrange(0, v@.len() as int) =~= self.rendered()); }
            MetricValue::PackedUnsigned(v) => { lemma_join_vals_front(v@, v@.len() as int); assert(render_seq(v@).subrange(0, v@.len() as int) =~= self.rendered()); }
            MetricValue::PackedFloat(v) => { lemma_join_vals_front(v@, v@.len() as int); assert(render_seq(v@).subrange(0, v@.len() as int) =~= self.rendered()); }
            _ => {}
        }
    }
    //@FN cadence/src/builder.rs :: impl MetricValue :: count
        ensures r == self.count_spec(),
    //@END
}

//@FN cadence/src/builder.rs :: - :: write_value
    ensures
        r.is_ok(),
        final(f)@ == old(f)@ + join_vals(vals@, vals@.len() as int),   // [C01 C02] packed values are rendered in list order, joined by ':', each exactly once
//@LOOP 1
        invariant $i <= vals@.len(), f@ == old(f)@ + join_vals(vals@, $i as int),
        decreases vals@.len() - $i,
//@END

impl VDisplay for MetricValue {
    closed spec fn render(&self) -> Seq<char> {
        match self {
            MetricValue::Signed(v) => dec_i64(*v),
            MetricValue::PackedSigned(v) => join_vals(v@, v@.len() as int),
            MetricValue::Unsigned(v) => dec_u64(*v),
            MetricValue::PackedUnsigned(v) => join_vals(v@, v@.len() as int),
            MetricValue::Float(v) => dec_f64(*v),
            MetricValue::PackedFloat(v) => join_vals(v@, v@.len() as int),
        }
    }
    //@FN cadence/src/builder.rs :: impl fmt::Display for MetricValue :: fmt :: notwin=1
    // [C01 C02] a value is rendered by std Display of exactly the number supplied; lists keep length and order
    //@END
}

//@ITEM cadence/src/builder.rs :: pub\(crate\) struct MetricFormatter<'a>

// rule X9: the associated const is hoisted to module level (Verus 0.2026.09.13 crashes on associated consts of a generic impl)
//@ITEM cadence/src/builder.rs :: const TAG_PREFIX

/// the tag section marker is the two ASCII characters `|#`   // [C01] tag section marker is |#
proof fn lemma_tag_prefix_len()
    ensures blen(TAG_PREFIX) == 2, TAG_PREFIX@ == "|#"@,
{
    reveal_strlit("|#");
    assert(TAG_PREFIX.is_ascii());
}

impl<'a> MetricFormatter<'a> {
    // ---- the line, section by section, as the property states it
    pub closed spec fn s_base(&self) -> Seq<char> { self.prefix@ + self.key@ + ":"@ + self.val.render() + "|"@ + self.type_.render() }
    pub closed spec fn s_rate(&self) -> Seq<char> { match self.sampling_rate { Some(r) => "|@"@ + dec_f64(r), None => Seq::empty() } }
    pub closed spec fn s_tags(&self) -> Seq<char> { if self.tags@.len() == 0 { Seq::empty() } else { "|#"@ + join_tags(self.tags@, self.tags@.len() as int) } }
    pub closed spec fn s_cid(&self) -> Seq<char> { match self.container_id { Some(c) => "|c:"@ + c@, None => Seq::empty() } }
    pub closed spec fn s_ts(&self) -> Seq<char> { match self.timestamp { Some(t) => "|T"@ + dec_u64(t), None => Seq::empty() } }
    /// <name>:<v1>[:<v2>...]|<type>[|@<rate>][|#<tag>,...][|c:<container>][|T<timestamp>]
    pub closed spec fn line(&self) -> Seq<char> { self.s_base() + self.s_rate() + self.s_tags() + self.s_cid() + self.s_ts() }

    /// C20 assumption: the inputs of one metric fit in memory together (sizes below 2^58)
    pub closed spec fn mem_ok(&self) -> bool {
        &&& self.base_size < 16 * BIG
        &&& self.kv_size < 4 * BIG
        &&& self.tags@.len() < 4 * BIG
        &&& (self.container_id matches Some(c) ==> blen(c) < 4 * BIG)
        &&& blen(TAG_PREFIX) == 2     // discharged by lemma_tag_prefix_len
    }
    pub closed spec fn same_but_tags(&self, o: &MetricFormatter<'a>) -> bool {
        &&& self.prefix == o.prefix &&& self.key == o.key &&& self.val == o.val &&& self.type_ == o.type_
        &&& self.timestamp == o.timestamp &&& self.sampling_rate == o.sampling_rate &&& self.container_id == o.container_id
        &&& self.base_size == o.base_size
    }

    // ---- connection to the text-level round-trip theorem (module roundtrip)
    pub closed spec fn abs(&self) -> Fields {
        Fields {
            name: self.prefix@ + self.key@,
            vals: self.val.rendered(),
            code: self.type_.render(),
            rate: match self.sampling_rate { Some(r) => Some(dec_f64(r)), None => None },
            tags: Seq::new(self.tags@.len(), |i: int| (match self.tags@[i].0 { Some(k) => Some(k@), None => None }, self.tags@[i].1@)),
            cid: match self.container_id { Some(c) => Some(c@), None => None },
            ts: match self.timestamp { Some(t) => Some(dec_u64(t)), None => None },
        }
    }

    proof fn lemma_join_tags_front(&self, n: int)
        requires 1 <= n <= self.tags@.len()
        ensures join_tags(self.tags@, n) =~= join(tag_txts(self.abs().tags).subrange(0, n), ',')
        decreases n
    {
        let tt = tag_txts(self.abs().tags);
        assert forall|i: int| 0 <= i < self.tags@.len() implies #[trigger] tt[i] =~= tag_text(self.tags@[i]) by {}
        if n == 1 {
            assert(tt.subrange(0, 1) =~= seq![tt[0]]);
        } else {
            self.lemma_join_tags_front(n - 1);
            assert(tt.subrange(0, n) =~= tt.subrange(0, n - 1).push(tt[n - 1]));
            lemma_join_push(tt.subrange(0, n - 1), tt[n - 1], ',');
        }
    }

    /// line() (the spec the real `format` is proved against) is text_line of the supplied fields
    proof fn lemma_line_is_text(&self)
        requires self.val.count_spec() >= 1
        ensures self.line() =~= text_line(self.abs())
    {
        reveal_strlit(":"); reveal_strlit("|"); reveal_strlit("|@"); reveal_strlit("|#"); reveal_strlit("|c:"); reveal_strlit("|T");
        let f = self.abs();
        lemma_text_line_flat(f);
        self.val.lemma_rendered();
        assert(":"@ =~= seq![':'] && "|"@ =~= seq!['|']);
        assert(self.s_base() =~= f.name + seq![':'] + join(f.vals, ':') + seq!['|'] + f.code);
        assert("|@"@ =~= seq!['|'] + seq!['@']);
        assert(self.s_rate() =~= opt_txt(f.rate, seq!['@']));
        if self.tags@.len() > 0 {
            self.lemma_join_tags_front(self.tags@.len() as int);
            assert(tag_txts(f.tags).subrange(0, self.tags@.len() as int) =~= tag_txts(f.tags));
            assert("|#"@ =~= seq!['|', '#']);
        }
        assert(self.s_tags() =~= tags_txt(f.tags));
        assert("|c:"@ =~= seq!['|'] + seq!['c', ':']);
        assert(self.s_cid() =~= opt_txt(f.cid, seq!['c', ':']));
        assert("|T"@ =~= seq!['|'] + seq!['T']);
        assert(self.s_ts() =~= opt_txt(f.ts, seq!['T']));
    }

    /// C01: whenever the supplied strings (and the std numerals) contain none of the delimiters,
    /// parsing the emitted line back yields exactly the supplied fields
    proof fn theorem_c01_round_trip(&self)   // [C01] parsing the line back yields exactly the supplied name, value list, kind, rate, tag sequence, container id and timestamp
        requires self.val.count_spec() >= 1, wf(self.abs())
        ensures same_fields(parse(self.line()), self.abs())
    {
        self.lemma_line_is_text();
        theorem_round_trip(self.abs());
        assert(self.line() == text_line(self.abs()));
    }

    //@FN cadence/src/builder.rs :: impl<'a> MetricFormatter<'a> :: from_val :: vis=
        requires blen(TAG_PREFIX) == 2,
            blen(prefix) < BIG, blen(key) < BIG, val.count_spec() < BIG,
        ensures
            r.prefix == prefix && r.key == key && r.val == val,    // [C01] name and value are the ones supplied
            r.type_ == type_,                                      // [C01] the kind is the one requested
            r.tags@.len() == 0,                                    // [C04] a fresh metric carries no tags of its own
            r.timestamp.is_none() && r.sampling_rate.is_none() && r.container_id.is_none(),  // [C01] optional sections are absent unless supplied
            r.kv_size == 0, r.mem_ok(),
    //@END

    //@FN cadence/src/builder.rs :: impl<'a> MetricFormatter<'a> :: counter :: vis=
        requires blen(TAG_PREFIX) == 2, blen(prefix) < BIG, blen(key) < BIG, val.count_spec() < BIG,
        ensures r.prefix == prefix && r.key == key && r.val == val && r.tags@.len() == 0 && r.timestamp.is_none() && r.sampling_rate.is_none() && r.container_id.is_none() && r.mem_ok(),
            r.type_ == MetricType::Counter,   // [C01] counter constructor => type code c
    //@END
    //@FN cadence/src/builder.rs :: impl<'a> MetricFormatter<'a> :: timer :: vis=
        requires blen(TAG_PREFIX) == 2, blen(prefix) < BIG, blen(key) < BIG, val.count_spec() < BIG,
        ensures r.prefix == prefix && r.key == key && r.val == val && r.tags@.len() == 0 && r.timestamp.is_none() && r.sampling_rate.is_none() && r.container_id.is_none() && r.mem_ok(),
            r.type_ == MetricType::Timer,   // [C01] timer constructor => type code ms
    //@END
    //@FN cadence/src/builder.rs :: impl<'a> MetricFormatter<'a> :: gauge :: vis=
        requires blen(TAG_PREFIX) == 2, blen(prefix) < BIG, blen(key) < BIG, val.count_spec() < BIG,
        ensures r.prefix == prefix && r.key == key && r.val == val && r.tags@.len() == 0 && r.timestamp.is_none() && r.sampling_rate.is_none() && r.container_id.is_none() && r.mem_ok(),
            r.type_ == MetricType::Gauge,   // [C01] gauge constructor => type code g
    //@END
    //@FN cadence/src/builder.rs :: impl<'a> MetricFormatter<'a> :: meter :: vis=
        requires blen(TAG_PREFIX) == 2, blen(prefix) < BIG, blen(key) < BIG, val.count_spec() < BIG,
        ensures r.prefix == prefix && r.key == key && r.val == val && r.tags@.len() == 0 && r.timestamp.is_none() && r.sampling_rate.is_none() && r.container_id.is_none() && r.mem_ok(),
            r.type_ == MetricType::Meter,   // [C01] meter constructor => type code m
    //@END
    //@FN cadence/src/builder.rs :: impl<'a> MetricFormatter<'a> :: histogram :: vis=
        requires blen(TAG_PREFIX) == 2, blen(prefix) < BIG, blen(key) < BIG, val.count_spec() < BIG,
        ensures r.prefix == prefix && r.key == key && r.val == val && r.tags@.len() == 0 && r.timestamp.is_none() && r.sampling_rate.is_none() && r.container_id.is_none() && r.mem_ok(),
            r.type_ == MetricType::Histogram,   // [C01] histogram constructor => type code h
    //@END
    //@FN cadence/src/builder.rs :: impl<'a> MetricFormatter<'a> :: distribution :: vis=
        requires blen(TAG_PREFIX) == 2, blen(prefix) < BIG, blen(key) < BIG, val.count_spec() < BIG,
        ensures r.prefix == prefix && r.key == key && r.val == val && r.tags@.len() == 0 && r.timestamp.is_none() && r.sampling_rate.is_none() && r.container_id.is_none() && r.mem_ok(),
            r.type_ == MetricType::Distribution,   // [C01] distribution constructor => type code d
    //@END
    //@FN cadence/src/builder.rs :: impl<'a> MetricFormatter<'a> :: set :: vis=
        requires blen(TAG_PREFIX) == 2, blen(prefix) < BIG, blen(key) < BIG, val.count_spec() < BIG,
        ensures r.prefix == prefix && r.key == key && r.val == val && r.tags@.len() == 0 && r.timestamp.is_none() && r.sampling_rate.is_none() && r.container_id.is_none() && r.mem_ok(),
            r.type_ == MetricType::Set,   // [C01] set constructor => type code s
    //@END

    //@FN cadence/src/builder.rs :: impl<'a> MetricFormatter<'a> :: with_tag :: vis=
        requires old(self).mem_ok(), blen(key) < BIG, blen(value) < BIG, old(self).kv_size + blen(key) + blen(value) + 1 < 4 * BIG, old(self).tags@.len() + 1 < 4 * BIG,
        ensures
            final(self).tags@ == old(self).tags@.push((Some(key), value)),   // [C04 C01] a key:value tag is appended after all tags already present
            final(self).same_but_tags(old(self)),                            // [C04 C01] adding a tag changes nothing else
            final(self).mem_ok(),
    //@END

    //@FN cadence/src/builder.rs :: impl<'a> MetricFormatter<'a> :: with_tag_value :: vis=
        requires old(self).mem_ok(), blen(value) < BIG, old(self).kv_size + blen(value) < 4 * BIG, old(self).tags@.len() + 1 < 4 * BIG,
        ensures
            final(self).tags@ == old(self).tags@.push((None, value)),        // [C04 C01] a bare tag is appended after all tags already present
            final(self).same_but_tags(old(self)),                            // [C04 C01] adding a tag changes nothing else
            final(self).mem_ok(),
    //@END

    //@FN cadence/src/builder.rs :: impl<'a> MetricFormatter<'a> :: with_timestamp :: vis=
        ensures old(self).mem_ok() ==> final(self).mem_ok(), final(self).timestamp == Some(timestamp),                    // [C01] the timestamp supplied is the one recorded
            final(self).tags == old(self).tags && final(self).prefix == old(self).prefix && final(self).key == old(self).key && final(self).val == old(self).val
            && final(self).type_ == old(self).type_ && final(self).sampling_rate == old(self).sampling_rate && final(self).container_id == old(self).container_id
            && final(self).base_size == old(self).base_size && final(self).kv_size == old(self).kv_size,   // [C01 C04] nothing else changes
    //@END
    //@FN cadence/src/builder.rs :: impl<'a> MetricFormatter<'a> :: with_container_id :: vis=
        requires old(self).mem_ok(), blen(container_id) < BIG,
        ensures final(self).mem_ok(), final(self).container_id == Some(container_id),              // [C04 C01] a container id supplied later replaces the one present
            final(self).tags == old(self).tags && final(self).prefix == old(self).prefix && final(self).key == old(self).key && final(self).val == old(self).val
            && final(self).type_ == old(self).type_ && final(self).sampling_rate == old(self).sampling_rate && final(self).timestamp == old(self).timestamp
            && final(self).base_size == old(self).base_size && final(self).kv_size == old(self).kv_size,   // [C01 C04] nothing else changes
    //@END
    //@FN cadence/src/builder.rs :: impl<'a> MetricFormatter<'a> :: with_sampling_rate :: vis=
        ensures old(self).mem_ok() ==> final(self).mem_ok(), final(self).sampling_rate == Some(rate),                     // [C01 C02] the sampling rate supplied is the one recorded
            final(self).tags == old(self).tags && final(self).prefix == old(self).prefix && final(self).key == old(self).key && final(self).val == old(self).val
            && final(self).type_ == old(self).type_ && final(self).timestamp == old(self).timestamp && final(self).container_id == old(self).container_id
            && final(self).base_size == old(self).base_size && final(self).kv_size == old(self).kv_size,   // [C01 C04] nothing else changes
    //@END

    //@FN cadence/src/builder.rs :: impl<'a> MetricFormatter<'a> :: write_base_metric :: vis=
        ensures final(out)@ == old(out)@ + self.s_base(),                    // [C01] <prefix><key>:<values>|<type>
    //@END
    //@FN cadence/src/builder.rs :: impl<'a> MetricFormatter<'a> :: write_sampling_rate :: vis=
        ensures final(out)@ == old(out)@ + self.s_rate(),                    // [C01 C02] |@<rate> exactly when a rate was supplied
    //@END
    //@FN cadence/src/builder.rs :: impl<'a> MetricFormatter<'a> :: write_tags :: vis=
        ensures final(out)@ == old(out)@ + self.s_tags(),                    // [C01 C04] |#tag,... exactly when there are tags, in vector order, key:value or bare
    //@LOOP 1
                invariant $i <= self.tags@.len(), out@ == old(out)@ + "|#"@ + join_tags(self.tags@, $i as int),
                decreases self.tags@.len() - $i,
    //@END
    //@FN cadence/src/builder.rs :: impl<'a> MetricFormatter<'a> :: write_timestamp :: vis=
        ensures final(out)@ == old(out)@ + self.s_ts(),                      // [C01] |T<timestamp> exactly when a timestamp was supplied
    //@END
    //@FN cadence/src/builder.rs :: impl<'a> MetricFormatter<'a> :: write_container_id :: vis=
        ensures final(out)@ == old(out)@ + self.s_cid(),                     // [C01 C04] |c:<id> exactly when a container id is present
    //@END

    //@FN cadence/src/builder.rs :: impl<'a> MetricFormatter<'a> :: tag_size_hint :: vis=
        requires self.mem_ok(),
        ensures r < 16 * BIG,
    //@END
    //@FN cadence/src/builder.rs :: impl<'a> MetricFormatter<'a> :: timestamp_size_hint :: vis=
        ensures r <= 12,
    //@END
    //@FN cadence/src/builder.rs :: impl<'a> MetricFormatter<'a> :: sampling_rate_size_hint :: vis=
        ensures r <= 19,
    //@END
    //@FN cadence/src/builder.rs :: impl<'a> MetricFormatter<'a> :: container_id_size_hint :: vis=
        requires self.mem_ok(),
        ensures r < 8 * BIG,
    //@END
    //@FN cadence/src/builder.rs :: impl<'a> MetricFormatter<'a> :: size_hint :: vis=
        requires self.mem_ok(),
    //@END

    //@FN cadence/src/builder.rs :: impl<'a> MetricFormatter<'a> :: format :: vis=
        requires self.mem_ok(),
        ensures r@ == self.line(),   // [C01 C04?] the text is exactly name:values|type[|@rate][|#tags][|c:container][|Ttimestamp], sections in that order, each exactly when supplied
    //@END
}

} // mod code
}
fn main() {}
