// Pure Verus lemma for C19: in-order greedy packing (close a datagram exactly when the next line does
// not fit -- which is what the `greedy::write` contract of contracts/io.rs enforces call by call) uses
// as few datagrams as ANY in-order packing into the configured capacity. No code is extracted here.
use vstd::prelude::*;
verus! {
pub mod greedy_opt {
use vstd::prelude::*;

/// total size of the lines i..j (each size = metric length + terminator length)
pub open spec fn sum(sizes: Seq<nat>, i: int, j: int) -> nat
    decreases j - i
{
    if j <= i { 0 } else { sum(sizes, i, j - 1) + sizes[j - 1] }
}

pub proof fn lemma_sum_mono_left(sizes: Seq<nat>, i: int, i2: int, j: int)
    requires 0 <= i <= i2 <= j <= sizes.len()
    ensures sum(sizes, i2, j) <= sum(sizes, i, j)
    decreases j - i2
{
    if j > i2 { lemma_sum_mono_left(sizes, i, i2, j - 1); }
    else { lemma_sum_nonneg(sizes, i, j); }
}
pub proof fn lemma_sum_nonneg(sizes: Seq<nat>, i: int, j: int)
    ensures sum(sizes, i, j) >= 0
{}
pub proof fn lemma_sum_mono_right(sizes: Seq<nat>, i: int, j: int, j2: int)
    requires 0 <= i <= j <= j2 <= sizes.len()
    ensures sum(sizes, i, j) <= sum(sizes, i, j2)
    decreases j2 - j
{
    if j2 > j { lemma_sum_mono_right(sizes, i, j, j2 - 1); }
}

/// greedy: starting a datagram at line i (with lines i..j already in it), keep adding lines while they fit
pub open spec fn extend(sizes: Seq<nat>, cap: nat, i: int, j: int) -> int
    decreases sizes.len() - j
{
    if j < sizes.len() && sum(sizes, i, j + 1) <= cap { extend(sizes, cap, i, j + 1) } else { j }
}
pub open spec fn gnext(sizes: Seq<nat>, cap: nat, i: int) -> int { extend(sizes, cap, i, i + 1) }

pub proof fn lemma_extend(sizes: Seq<nat>, cap: nat, i: int, j: int, b: int)
    requires 0 <= i < j <= b <= sizes.len(), sum(sizes, i, b) <= cap
    ensures extend(sizes, cap, i, j) >= b, extend(sizes, cap, i, j) <= sizes.len()
    decreases sizes.len() - j
{
    if j < b {
        lemma_sum_mono_right(sizes, i, j + 1, b);
        lemma_extend(sizes, cap, i, j + 1, b);
    } else {
        lemma_extend_bounds(sizes, cap, i, j);
    }
}
pub proof fn lemma_extend_bounds(sizes: Seq<nat>, cap: nat, i: int, j: int)
    requires 0 <= i < j <= sizes.len()
    ensures j <= extend(sizes, cap, i, j) <= sizes.len()
    decreases sizes.len() - j
{
    if j < sizes.len() && sum(sizes, i, j + 1) <= cap { lemma_extend_bounds(sizes, cap, i, j + 1); }
}

/// number of datagrams greedy needs for the lines from i on
pub open spec fn greedy_count(sizes: Seq<nat>, cap: nat, i: int) -> nat
    decreases sizes.len() - i
{
    if i >= sizes.len() || i < 0 { 0 } else if i < gnext(sizes, cap, i) <= sizes.len() { 1 + greedy_count(sizes, cap, gnext(sizes, cap, i)) } else { 0 }
}

/// an in-order packing of the lines a..n: strictly increasing datagram ends, the last one is n,
/// every datagram within capacity
pub open spec fn valid_packing(sizes: Seq<nat>, cap: nat, a: int, ends: Seq<int>) -> bool
    decreases ends.len()
{
    if ends.len() == 0 { a == sizes.len() }
    else { a < ends[0] <= sizes.len() && sum(sizes, a, ends[0]) <= cap && valid_packing(sizes, cap, ends[0], ends.drop_first()) }
}

/// C19: greedy stays ahead, hence needs no more datagrams than any valid in-order packing
pub proof fn theorem_greedy_is_optimal(sizes: Seq<nat>, cap: nat, a: int, a2: int, ends: Seq<int>)   // [C19] consecutive metrics are coalesced into as few datagrams as in-order packing into the configured capacity allows
    requires 0 <= a <= a2 <= sizes.len(), valid_packing(sizes, cap, a, ends)
    ensures greedy_count(sizes, cap, a2) <= ends.len()
    decreases ends.len()
{
    if a2 >= sizes.len() {
    } else {
        // ends is non-empty because a <= a2 < n
        assert(ends.len() > 0);
        let b = ends[0];
        lemma_extend_bounds(sizes, cap, a2, a2 + 1);
        let g = gnext(sizes, cap, a2);
        if a2 < b {
            lemma_sum_mono_left(sizes, a, a2, b);
            lemma_extend(sizes, cap, a2, a2 + 1, b);
        }
        assert(g >= b);
        theorem_greedy_is_optimal(sizes, cap, b, g, ends.drop_first());
    }
}

//@PROBE greedy_not_vacuous
proof fn probe_greedy_not_vacuous(sizes: Seq<nat>, cap: nat, ends: Seq<int>)
    requires valid_packing(sizes, cap, 0, ends), sizes.len() == 2
    ensures false
{
    theorem_greedy_is_optimal(sizes, cap, 0, 0, ends);
}
} // mod greedy_opt
}
fn main() {}
