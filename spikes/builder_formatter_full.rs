use vstd::prelude::*;
verus! {

pub mod model {
use vstd::prelude::*;

// ---- trusted: std Display renderings as uninterpreted spec functions ----
pub uninterp spec fn dec_i64(v: i64) -> Seq<char>;
pub uninterp spec fn dec_u64(v: u64) -> Seq<char>;
pub uninterp spec fn dec_f64(v: f64) -> Seq<char>;

pub struct Formatter { pub buf: String }
pub struct FmtError;
pub type FmtResult = Result<(), FmtError>;

impl Formatter {
    #[verifier::external_body]
    pub fn with_capacity(n: usize) -> (r: Formatter) ensures r.buf@ == Seq::<char>::empty() { unimplemented!() }
    #[verifier::external_body]
    pub fn write_char(&mut self, c: char) -> (r: FmtResult)
        ensures r.is_ok(), final(self).buf@ == old(self).buf@.push(c)
    { unimplemented!() }
}

pub trait VDisplay {
    spec fn render(&self) -> Seq<char>;
    fn fmt(&self, f: &mut Formatter) -> (r: FmtResult)
        ensures r.is_ok(), final(f).buf@ == old(f).buf@ + self.render();
}

impl VDisplay for i64 {
    open spec fn render(&self) -> Seq<char> { dec_i64(*self) }
    #[verifier::external_body]
    fn fmt(&self, f: &mut Formatter) -> (r: FmtResult) { unimplemented!() }
}
impl VDisplay for u64 {
    open spec fn render(&self) -> Seq<char> { dec_u64(*self) }
    #[verifier::external_body]
    fn fmt(&self, f: &mut Formatter) -> (r: FmtResult) { unimplemented!() }
}
impl VDisplay for f64 {
    open spec fn render(&self) -> Seq<char> { dec_f64(*self) }
    #[verifier::external_body]
    fn fmt(&self, f: &mut Formatter) -> (r: FmtResult) { unimplemented!() }
}
impl VDisplay for &str {
    open spec fn render(&self) -> Seq<char> { self@ }
    #[verifier::external_body]
    fn fmt(&self, f: &mut Formatter) -> (r: FmtResult) { unimplemented!() }
}

pub open spec fn join<T: VDisplay>(vals: Seq<T>, n: int) -> Seq<char>
    decreases n
{
    if n <= 0 { Seq::empty() }
    else if n == 1 { vals[0].render() }
    else { join(vals, n - 1) + seq![':'] + vals[n - 1].render() }
}
}

pub mod code {
use vstd::prelude::*;
use super::model::*;

#[derive(Debug, Clone, Copy)]
enum MetricType {
    Counter,
    Timer,
    Gauge,
    Meter,
    Histogram,
    Set,
    Distribution,
}

impl VDisplay for MetricType {
    closed spec fn render(&self) -> Seq<char> {
        match *self {
            MetricType::Counter => "c"@, MetricType::Timer => "ms"@, MetricType::Gauge => "g"@, MetricType::Meter => "m"@,
            MetricType::Histogram => "h"@, MetricType::Set => "s"@, MetricType::Distribution => "d"@,
        }
    }
    fn fmt(&self, f: &mut Formatter) -> (r: FmtResult) {
        match *self {
            MetricType::Counter => "c".fmt(f),
            MetricType::Timer => "ms".fmt(f),
            MetricType::Gauge => "g".fmt(f),
            MetricType::Meter => "m".fmt(f),
            MetricType::Histogram => "h".fmt(f),
            MetricType::Set => "s".fmt(f),
            MetricType::Distribution => "d".fmt(f),
        }
    }
}

pub enum MetricValue {
    Signed(i64),
    PackedSigned(Vec<i64>),
    Unsigned(u64),
    PackedUnsigned(Vec<u64>),
    Float(f64),
    PackedFloat(Vec<f64>),
}

fn write_value<T>(f: &mut Formatter, vals: &[T]) -> (r: FmtResult)
where
    T: VDisplay,
    ensures r.is_ok(), final(f).buf@ == old(f).buf@ + join(vals@, vals@.len() as int)
{
    let mut i: usize = 0;
    while i < vals.len()
        invariant i <= vals@.len(), f.buf@ == old(f).buf@ + join(vals@, i as int)
        decreases vals@.len() - i
    {
        let value = &vals[i];
        if i > 0 {
            f.write_char(':')?;
        }
        value.fmt(f)?;
        i += 1;
    }

    FmtResult::Ok(())
}

impl VDisplay for MetricValue {
    closed spec fn render(&self) -> Seq<char> {
        match self {
            MetricValue::Signed(v) => dec_i64(*v),
            MetricValue::PackedSigned(v) => join(v@, v@.len() as int),
            MetricValue::Unsigned(v) => dec_u64(*v),
            MetricValue::PackedUnsigned(v) => join(v@, v@.len() as int),
            MetricValue::Float(v) => dec_f64(*v),
            MetricValue::PackedFloat(v) => join(v@, v@.len() as int),
        }
    }
    fn fmt(&self, f: &mut Formatter) -> (r: FmtResult) {
        match self {
            MetricValue::Signed(v) => v.fmt(f),
            MetricValue::PackedSigned(v) => write_value(f, v),
            MetricValue::Unsigned(v) => v.fmt(f),
            MetricValue::PackedUnsigned(v) => write_value(f, v),
            MetricValue::Float(v) => v.fmt(f),
            MetricValue::PackedFloat(v) => write_value(f, v),
        }
    }
}

pub struct MetricFormatter<'a> {
    prefix: &'a str,
    key: &'a str,
    val: MetricValue,
    type_: MetricType,
    tags: Vec<(Option<&'a str>, &'a str)>,
    timestamp: Option<u64>,
    sampling_rate: Option<f64>,
    container_id: Option<&'a str>,
    base_size: usize,
    kv_size: usize,
}

pub closed spec fn tag_seq(t: (Option<&str>, &str)) -> Seq<char> {
    match t.0 { Some(k) => k@ + seq![':'] + t.1@, None => t.1@ }
}
pub closed spec fn tags_seq(tags: Seq<(Option<&str>, &str)>, n: int) -> Seq<char>
    decreases n
{
    if n <= 0 { Seq::empty() }
    else if n == 1 { tag_seq(tags[0]) }
    else { tags_seq(tags, n - 1) + seq![','] + tag_seq(tags[n - 1]) }
}

impl<'a> MetricFormatter<'a> {
    pub closed spec fn s_base(&self) -> Seq<char> { self.prefix@ + self.key@ + ":"@ + self.val.render() + "|"@ + self.type_.render() }
    pub closed spec fn s_rate(&self) -> Seq<char> { match self.sampling_rate { Some(r) => "|@"@ + dec_f64(r), None => Seq::empty() } }
    pub closed spec fn s_tags(&self) -> Seq<char> { if self.tags@.len() == 0 { Seq::empty() } else { "|#"@ + tags_seq(self.tags@, self.tags@.len() as int) } }
    pub closed spec fn s_cid(&self) -> Seq<char> { match self.container_id { Some(c) => "|c:"@ + c@, None => Seq::empty() } }
    pub closed spec fn s_ts(&self) -> Seq<char> { match self.timestamp { Some(t) => "|T"@ + dec_u64(t), None => Seq::empty() } }
    pub closed spec fn line(&self) -> Seq<char> { self.s_base() + self.s_rate() + self.s_tags() + self.s_cid() + self.s_ts() }

    const TAG_PREFIX: &'static str = "|#";

    fn write_base_metric(&self, out: &mut Formatter)
        ensures final(out).buf@ == old(out).buf@ + self.s_base()
    {
        // X3: let _ = write!(out, "{}{}:{}|{}", self.prefix, self.key, self.val, self.type_);
        let _ = self.prefix.fmt(out); let _ = self.key.fmt(out); out.buf.push_str(":"); let _ = self.val.fmt(out); out.buf.push_str("|"); let _ = self.type_.fmt(out);
    }

    fn write_sampling_rate(&self, out: &mut Formatter)
        ensures final(out).buf@ == old(out).buf@ + self.s_rate()
    {
        if let Some(rate) = self.sampling_rate {
            out.buf.push_str("|@"); let _ = rate.fmt(out);
        }
    }

    fn write_tags(&self, out: &mut Formatter)
        ensures final(out).buf@ == old(out).buf@ + self.s_tags()
    {
        if !self.tags.is_empty() {
            out.buf.push_str("|#");
            let mut i: usize = 0;
            while i < self.tags.len()
                invariant i <= self.tags@.len(), out.buf@ == old(out).buf@ + "|#"@ + tags_seq(self.tags@, i as int)
                decreases self.tags@.len() - i
            {
                let (key, value) = self.tags[i];
                if i > 0 {
                    out.buf.push(',');
                }
                if let Some(key) = key {
                    out.buf.push_str(key);
                    out.buf.push(':');
                }
                out.buf.push_str(value);
                i += 1;
            }
        }
    }

    fn write_timestamp(&self, out: &mut Formatter)
        ensures final(out).buf@ == old(out).buf@ + self.s_ts()
    {
        if let Some(timestamp) = self.timestamp {
            out.buf.push_str("|T"); let _ = timestamp.fmt(out);
        }
    }

    fn write_container_id(&self, out: &mut Formatter)
        ensures final(out).buf@ == old(out).buf@ + self.s_cid()
    {
        if let Some(container_id) = self.container_id {
            out.buf.push_str("|c:"); let _ = container_id.fmt(out);
        }
    }

    fn size_hint(&self) -> usize { 0 }

    pub(crate) fn format(&self) -> (r: Formatter)
        ensures r.buf@ == self.line()
    {
        let size_hint = self.size_hint();
        let mut metric_string = Formatter::with_capacity(size_hint);
        self.write_base_metric(&mut metric_string);
        self.write_sampling_rate(&mut metric_string);
        self.write_tags(&mut metric_string);
        self.write_container_id(&mut metric_string);
        self.write_timestamp(&mut metric_string);
        metric_string
    }
}
}
}
fn main() {}
