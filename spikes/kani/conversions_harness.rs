// appended (as `#[cfg(kani)] mod kani_harness;`) to a scratch copy of cadence/src/lib.rs
use crate::client::{ToTimerValue, ToHistogramValue};
use crate::builder::MetricValue;
use crate::types::ErrorKind;
use std::time::Duration;

#[kani::proof]
fn timer_duration() {
    let secs: u64 = kani::any();
    let nanos: u32 = kani::any();
    kani::assume(nanos < 1_000_000_000);
    let d = Duration::new(secs, nanos);
    let exact: u128 = (secs as u128) * 1000 + (nanos as u128) / 1_000_000;
    match ToTimerValue::try_to_value(d) {
        Ok(MetricValue::Unsigned(v)) => { assert!(exact <= u64::MAX as u128); assert!(v as u128 == exact); }
        Ok(_) => assert!(false),
        Err(e) => { assert!(exact > u64::MAX as u128); assert!(e.kind() == ErrorKind::InvalidInput); }
    }
}

#[kani::proof]
fn hist_duration() {
    let secs: u64 = kani::any();
    let nanos: u32 = kani::any();
    kani::assume(nanos < 1_000_000_000);
    let d = Duration::new(secs, nanos);
    let exact: u128 = (secs as u128) * 1_000_000_000 + (nanos as u128);
    match ToHistogramValue::try_to_value(d) {
        Ok(MetricValue::Unsigned(v)) => { assert!(exact <= u64::MAX as u128); assert!(v as u128 == exact); }
        Ok(_) => assert!(false),
        Err(e) => { assert!(exact > u64::MAX as u128); assert!(e.kind() == ErrorKind::InvalidInput); }
    }
}
