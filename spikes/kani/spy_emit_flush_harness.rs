#[cfg(kani)]
mod verif_harness {
    use super::*;
    use std::sync::atomic::{AtomicUsize, Ordering};

    static CALLS: AtomicUsize = AtomicUsize::new(0);
    static LEN: AtomicUsize = AtomicUsize::new(0);
    static B0: AtomicUsize = AtomicUsize::new(0);
    static BL: AtomicUsize = AtomicUsize::new(0);

    fn adapter_write_stub(_w: &mut WriteAdapter, buf: &[u8]) -> io::Result<usize> {
        CALLS.fetch_add(1, Ordering::SeqCst);
        LEN.store(buf.len(), Ordering::SeqCst);
        if buf.len() > 0 { B0.store(buf[0] as usize, Ordering::SeqCst); BL.store(buf[buf.len() - 1] as usize, Ordering::SeqCst); }
        Ok(buf.len())
    }

    #[kani::proof]
    #[kani::unwind(6)]
    #[kani::stub(<WriteAdapter as std::io::Write>::write, adapter_write_stub)]
    fn spy_emit_flush() {
        let (rx, sink) = BufferedSpyMetricSink::with_capacity(None, Some(8));
        let bytes: [u8; 3] = [kani::any(), b'b', b'c'];
        kani::assume(bytes[0] < 128);
        let n: usize = kani::any();
        kani::assume(n >= 1 && n <= 3);
        let m = std::str::from_utf8(&bytes[..n]).unwrap();
        let r = sink.emit(m);
        assert!(r.is_ok() && r.unwrap() == n);
        assert!(CALLS.load(Ordering::SeqCst) == 0);
        assert!(sink.writer.try_lock().is_ok());
        assert!(sink.flush().is_ok());
        assert!(CALLS.load(Ordering::SeqCst) == 1);
        assert!(LEN.load(Ordering::SeqCst) == n + 1);
        assert!(B0.load(Ordering::SeqCst) == bytes[0] as usize && BL.load(Ordering::SeqCst) == 10);
        std::mem::forget(sink); std::mem::forget(rx);
    }
}
