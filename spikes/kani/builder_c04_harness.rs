#[cfg(kani)]
mod verif_harness {
    use super::*;
    use crate::client::{Distributed, Counted};

    #[kani::proof]
    #[kani::unwind(4)]
    fn c04_distribution_u64() {
        let mut tags: Vec<(Option<String>, String)> = Vec::with_capacity(2);
        tags.push((if kani::any() { Some(String::from("k")) } else { None }, String::from("v")));
        tags.push((if kani::any() { Some(String::from("l")) } else { None }, String::from("w")));
        let cid: bool = kani::any();
        let client = crate::client::kani_client(String::from("p."), tags, if cid { Some(String::from("c")) } else { None });
        let v: u64 = kani::any();
        let b = client.distribution_with_tags("key", v);
        match b.repr {
            BuilderRepr::Success(ref f, _) => {
                assert!(matches!(f.type_, MetricType::Distribution));
                assert!(f.prefix.as_ptr() == client.prefix_ptr());
                assert!(f.tags.len() == 2);
                let (k0, v0) = client.tag_at(0);
                let (k1, v1) = client.tag_at(1);
                assert!(f.tags[0].1.as_ptr() == v0.as_ptr() && f.tags[0].0.is_some() == k0.is_some());
                assert!(f.tags[1].1.as_ptr() == v1.as_ptr() && f.tags[1].0.is_some() == k1.is_some());
                assert!(f.container_id.is_some() == cid);
                assert!(matches!(f.val, MetricValue::Unsigned(x) if x == v));
            }
            BuilderRepr::Error(..) => assert!(false),
        }
        std::mem::forget(b); std::mem::forget(client);
    }
}
