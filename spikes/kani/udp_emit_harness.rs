#[cfg(kani)]
mod verif_harness {
    use super::*;
    use std::os::fd::FromRawFd;
    use std::sync::atomic::{AtomicUsize, Ordering};
    use std::mem::ManuallyDrop;

    static CALLS: AtomicUsize = AtomicUsize::new(0);
    static PTR: AtomicUsize = AtomicUsize::new(0);
    static LEN: AtomicUsize = AtomicUsize::new(0);
    static PORT: AtomicUsize = AtomicUsize::new(0);

    fn send_to_stub<A: ToSocketAddrs>(_s: &UdpSocket, buf: &[u8], addr: A) -> io::Result<usize> {
        CALLS.fetch_add(1, Ordering::SeqCst);
        PTR.store(buf.as_ptr() as usize, Ordering::SeqCst);
        LEN.store(buf.len(), Ordering::SeqCst);
        if let Ok(mut it) = addr.to_socket_addrs() { if let Some(a) = it.next() { PORT.store(a.port() as usize, Ordering::SeqCst); } }
        if kani::any() { Ok(kani::any()) } else { Err(io::Error::from(io::ErrorKind::WouldBlock)) }
    }

    #[kani::proof]
    #[kani::unwind(6)]
    #[kani::stub(std::net::UdpSocket::send_to, send_to_stub)]
    fn udp_emit() {
        let socket = ManuallyDrop::new(unsafe { UdpSocket::from_raw_fd(7) });
        let addr = SocketAddr::from(([127, 0, 0, 1], 8125));
        let sink = ManuallyDrop::new(UdpMetricSink { addr, socket: ManuallyDrop::into_inner(socket), stats: SocketStats::default() });
        let bytes: [u8; 4] = [b'a', b':', b'1', b'|'];
        let n: usize = kani::any();
        kani::assume(n <= 4);
        let m = std::str::from_utf8(&bytes[..n]).unwrap();
        let r = sink.emit(m);
        assert!(CALLS.load(Ordering::SeqCst) == 1);
        assert!(PTR.load(Ordering::SeqCst) == m.as_ptr() as usize);
        assert!(LEN.load(Ordering::SeqCst) == m.len());
        assert!(PORT.load(Ordering::SeqCst) == 8125);
        let st = sink.stats();
        match r {
            Ok(w) => { assert!(st.packets_sent == 1 && st.bytes_sent == w as u64 && st.packets_dropped == 0 && st.bytes_dropped == 0); }
            Err(e) => { assert!(e.kind() == io::ErrorKind::WouldBlock); assert!(st.packets_dropped == 1 && st.bytes_dropped == n as u64 && st.packets_sent == 0); }
        }
    }
}
