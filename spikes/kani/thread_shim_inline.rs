
pub(crate) mod thread {
    use std::marker::PhantomData;
    pub struct JoinHandle<T>(PhantomData<T>);
    // sequential shim: the spawned closure runs to quiescence at once (the shim channel's
    // iter() ends where the real one would block)
    pub fn spawn<F, T>(f: F) -> JoinHandle<T> where F: FnOnce() -> T + Send + 'static, T: Send + 'static {
        let _ = f();
        JoinHandle(PhantomData)
    }
    pub fn yield_now() {}
}
