#[cfg(kani)]
mod verif_harness {
    use super::*;
    use std::sync::atomic::{AtomicUsize, AtomicBool, Ordering};
    use std::sync::Arc;
    use std::io;

    struct Scripted { fail: bool, calls: Arc<AtomicUsize>, len: Arc<AtomicUsize> }
    impl MetricSink for Scripted {
        fn emit(&self, m: &str) -> io::Result<usize> {
            self.calls.fetch_add(1, Ordering::SeqCst);
            self.len.store(m.len(), Ordering::SeqCst);
            if self.fail { Err(io::Error::from(io::ErrorKind::BrokenPipe)) } else { Ok(m.len()) }
        }
    }

    fn format_stub<'a>(_f: &MetricFormatter<'a>) -> String where 'a: 'a {
        if kani::any() { String::from("a") } else { String::from("bc") }
    }

    #[kani::proof]
    #[kani::unwind(4)]
    #[kani::stub(crate::builder::MetricFormatter::format, format_stub)]
    fn c03_count() {
        let calls = Arc::new(AtomicUsize::new(0));
        let len = Arc::new(AtomicUsize::new(0));
        let errs = Arc::new(AtomicUsize::new(0));
        let errs2 = errs.clone();
        let fail: bool = kani::any();
        let client = StatsdClient { prefix: String::new(), sink: Box::new(Scripted { fail, calls: calls.clone(), len: len.clone() }),
            errors: Box::new(move |_e| { errs2.fetch_add(1, Ordering::SeqCst); }), tags: Vec::new(), container_id: None };
        let r = client.count("k", 1i64);
        assert!(calls.load(Ordering::SeqCst) == 1);
        match r {
            Ok(m) => { assert!(!fail); assert!(m.as_metric_str().len() == len.load(Ordering::SeqCst)); }
            Err(e) => { assert!(fail); assert!(e.kind() == ErrorKind::IoError); }
        }
        client.count_with_tags("k", 1i64).send();
        assert!(calls.load(Ordering::SeqCst) == 2);
        assert!(errs.load(Ordering::SeqCst) == if fail { 1 } else { 0 });
    }
}
