#[cfg(kani)]
mod verif_harness {
    use super::*;
    use std::sync::atomic::AtomicUsize;

    struct LogSink { calls: Arc<AtomicUsize>, dropped: Arc<AtomicUsize>, fail: bool }
    impl MetricSink for LogSink {
        fn emit(&self, m: &str) -> io::Result<usize> {
            self.calls.fetch_add(1, Ordering::SeqCst);
            if self.fail { Err(io::Error::from(io::ErrorKind::Other)) } else { Ok(m.len()) }
        }
    }
    impl Drop for LogSink { fn drop(&mut self) { self.dropped.fetch_add(1, Ordering::SeqCst); } }

    struct PlainSink;
    impl MetricSink for PlainSink { fn emit(&self, m: &str) -> io::Result<usize> { Ok(m.len()) } }

    #[kani::proof]
    #[kani::unwind(3)]
    fn q_build_only() {
        let q = QueuingMetricSink::with_capacity(PlainSink, 2);
        assert!(q.worker.stats.submitted() == 0);
        std::mem::forget(q);
    }

    #[kani::proof]
    #[kani::unwind(3)]
    fn q_literal() {
        let calls = Arc::new(AtomicUsize::new(0));
        let c2 = calls.clone();
        let worker = Arc::new(Worker::new(Some(2), move |_v: String| { c2.fetch_add(1, Ordering::SeqCst); }));
        let q = QueuingMetricSink { worker: worker.clone(), sink: Arc::new(PlainSink) };
        let q2 = q.clone();
        drop(q2);
        assert!(q.worker.submit(String::new()).is_ok());
        spawn_worker_in_thread(worker.clone());
        assert!(calls.load(Ordering::SeqCst) == 1);
        std::mem::forget(q);
    }

    struct CountSink { calls: Arc<AtomicUsize>, fail: bool }
    impl MetricSink for CountSink {
        fn emit(&self, m: &str) -> io::Result<usize> {
            self.calls.fetch_add(1, Ordering::SeqCst);
            if self.fail { Err(io::Error::from(io::ErrorKind::TimedOut)) } else { Ok(m.len()) }
        }
    }

    #[kani::proof]
    #[kani::unwind(3)]
    fn q_c16() {
        let calls = Arc::new(AtomicUsize::new(0));
        let errs = Arc::new(AtomicUsize::new(0));
        let errs2 = errs.clone();
        let fail: bool = kani::any();
        let q = QueuingMetricSinkBuilder::new().with_capacity(2)
            .with_error_handler(move |e: io::Error| { if e.kind() == io::ErrorKind::TimedOut { errs2.fetch_add(1, Ordering::SeqCst); } std::mem::forget(e); })
            .build(CountSink { calls: calls.clone(), fail });
        (q.worker.task)(String::new());
        assert!(calls.load(Ordering::SeqCst) == 1);
        assert!(errs.load(Ordering::SeqCst) == if fail { 1 } else { 0 });
        std::mem::forget(q);
    }

    #[kani::proof]
    #[kani::unwind(5)]
    fn q_noemit() {
        let calls = Arc::new(AtomicUsize::new(0));
        let dropped = Arc::new(AtomicUsize::new(0));
        let q = QueuingMetricSink::with_capacity(LogSink { calls: calls.clone(), dropped: dropped.clone(), fail: false }, 2);
        let q2 = q.clone();
        drop(q2);
        assert!(q.worker.submit(String::new()).is_ok());
        spawn_worker_in_thread(q.worker.clone()); // resume the blocked worker
        assert!(calls.load(Ordering::SeqCst) == 1);
    }

    #[kani::proof]
    #[kani::unwind(5)]
    fn q_clone_drop() {
        let calls = Arc::new(AtomicUsize::new(0));
        let dropped = Arc::new(AtomicUsize::new(0));
        let q = QueuingMetricSink::with_capacity(LogSink { calls: calls.clone(), dropped: dropped.clone(), fail: false }, 2);
        let q2 = q.clone();
        drop(q2);
        let r = q.emit("");
        assert!(r.is_ok());
        // run the "background thread" to quiescence
        spawn_worker_in_thread(q.worker.clone()); // resume the blocked worker
        // C08: the accepted metric must have been delivered
        assert!(calls.load(Ordering::SeqCst) == 1);
    }
}
