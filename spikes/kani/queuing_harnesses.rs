#[cfg(kani)]
mod verif_harness {
    use super::*;
    use std::sync::atomic::AtomicUsize;

    struct LogSink { calls: Arc<AtomicUsize>, dropped: Arc<AtomicUsize>, fail: bool }
    impl MetricSink for LogSink {
        fn emit(&self, m: &str) -> io::Result<usize> {
            self.calls.fetch_add(1, Ordering::SeqCst);
            if self.fail { Err(io::Error::from(io::ErrorKind::Other)) } else { Ok(m.len()) }
        }
    }
    impl Drop for LogSink { fn drop(&mut self) { self.dropped.fetch_add(1, Ordering::SeqCst); } }

    struct PlainSink;
    impl MetricSink for PlainSink { fn emit(&self, m: &str) -> io::Result<usize> { Ok(m.len()) } }

    struct NeverSink;
    impl MetricSink for NeverSink { fn emit(&self, _m: &str) -> io::Result<usize> { unreachable!("wrapped sink entered on the caller path") } }

    #[kani::proof]
    #[kani::unwind(5)]
    fn c09_stop_enqueues_marker() {
        let n: usize = kani::any();
        kani::assume(n <= 2);
        let w = Worker::new(Some(2), |_v: String| {});
        if n >= 1 { let _ = w.submit(String::new()); }
        if n >= 2 { let _ = w.submit(String::new()); }
        w.stop();
        // contract: the marker is in the queue after stop(), whatever the occupancy
        let mut found = false;
        let mut k = 0;
        while k < 3 { match w.receiver.try_recv() { Ok(None) => { found = true; } _ => {} } k += 1; }
        assert!(found);
        std::mem::forget(w);
    }

    fn str_display_stub(s: &str, f: &mut fmt::Formatter<'_>) -> fmt::Result { f.write_str(s) }

    #[kani::proof]
    #[kani::unwind(5)]
    fn c10_emit_ok_path() {
        let worker = Arc::new(Worker::new(Some(1), |_v: String| {}));
        let q = QueuingMetricSink { worker, sink: Arc::new(NeverSink) };
        let r1 = q.emit("");
        assert!(matches!(r1, Ok(0)));
        assert!(q.submitted() == 1 && q.queued() == 1 && q.drained() == 0);
        std::mem::forget(r1); std::mem::forget(q);
    }

    #[kani::proof]
    #[kani::unwind(5)]
    fn c10_emit_full_path() {
        let worker = Arc::new(Worker::new(Some(0), |_v: String| {}));
        let q = QueuingMetricSink { worker, sink: Arc::new(NeverSink) };
        let r2 = q.emit("");
        assert!(r2.is_err());
        assert!(q.submitted() == 0 && q.queued() == 0);
        std::mem::forget(r2); std::mem::forget(q);
    }

    #[kani::proof]
    #[kani::unwind(5)]
    #[kani::stub(<str as std::fmt::Display>::fmt, str_display_stub)]
    fn c10_emit_never_enters_wrapped() {
        let worker = Arc::new(Worker::new(Some(1), |_v: String| {}));
        let q = QueuingMetricSink { worker, sink: Arc::new(NeverSink) };
        let r1 = q.emit("");
        let r2 = q.emit("");
        assert!(r1.is_ok() && r1.unwrap() == 0);
        assert!(r2.is_err());
        assert!(q.submitted() == 1 && q.queued() == 1 && q.drained() == 0);
        std::mem::forget(q);
    }

    #[kani::proof]
    fn c15_queued_total() {
        let st = WorkerStats::new();
        let s: u64 = kani::any(); let d: u64 = kani::any();
        st.submitted.store(s, Ordering::SeqCst); st.drained.store(d, Ordering::SeqCst);
        let q = st.queued();
        assert!(q == if s > d { s - d } else { 0 });
        assert!(q <= s);
    }

    #[kani::proof]
    #[kani::unwind(3)]
    fn q_build_only() {
        let q = QueuingMetricSink::with_capacity(PlainSink, 2);
        assert!(q.worker.stats.submitted() == 0);
        std::mem::forget(q);
    }

    #[kani::proof]
    #[kani::unwind(3)]
    fn q_literal() {
        let calls = Arc::new(AtomicUsize::new(0));
        let c2 = calls.clone();
        let worker = Arc::new(Worker::new(Some(2), move |_v: String| { c2.fetch_add(1, Ordering::SeqCst); }));
        let q = QueuingMetricSink { worker: worker.clone(), sink: Arc::new(PlainSink) };
        let q2 = q.clone();
        drop(q2);
        assert!(q.worker.submit(String::new()).is_ok());
        spawn_worker_in_thread(worker.clone());
        assert!(calls.load(Ordering::SeqCst) == 1);
        std::mem::forget(q);
    }

    struct CountSink { calls: Arc<AtomicUsize>, fail: bool }
    impl MetricSink for CountSink {
        fn emit(&self, m: &str) -> io::Result<usize> {
            self.calls.fetch_add(1, Ordering::SeqCst);
            if self.fail { Err(io::Error::from(io::ErrorKind::TimedOut)) } else { Ok(m.len()) }
        }
    }

    #[kani::proof]
    #[kani::unwind(3)]
    fn q_c16() {
        let calls = Arc::new(AtomicUsize::new(0));
        let errs = Arc::new(AtomicUsize::new(0));
        let errs2 = errs.clone();
        let fail: bool = kani::any();
        let q = QueuingMetricSinkBuilder::new().with_capacity(2)
            .with_error_handler(move |e: io::Error| { if e.kind() == io::ErrorKind::TimedOut { errs2.fetch_add(1, Ordering::SeqCst); } std::mem::forget(e); })
            .build(CountSink { calls: calls.clone(), fail });
        (q.worker.task)(String::new());
        assert!(calls.load(Ordering::SeqCst) == 1);
        assert!(errs.load(Ordering::SeqCst) == if fail { 1 } else { 0 });
        std::mem::forget(q);
    }

    #[kani::proof]
    #[kani::unwind(5)]
    fn q_noemit() {
        let calls = Arc::new(AtomicUsize::new(0));
        let dropped = Arc::new(AtomicUsize::new(0));
        let q = QueuingMetricSink::with_capacity(LogSink { calls: calls.clone(), dropped: dropped.clone(), fail: false }, 2);
        let q2 = q.clone();
        drop(q2);
        assert!(q.worker.submit(String::new()).is_ok());
        spawn_worker_in_thread(q.worker.clone()); // resume the blocked worker
        assert!(calls.load(Ordering::SeqCst) == 1);
    }

    #[kani::proof]
    #[kani::unwind(5)]
    fn q_clone_drop() {
        let calls = Arc::new(AtomicUsize::new(0));
        let dropped = Arc::new(AtomicUsize::new(0));
        let q = QueuingMetricSink::with_capacity(LogSink { calls: calls.clone(), dropped: dropped.clone(), fail: false }, 2);
        let q2 = q.clone();
        drop(q2);
        let r = q.emit("");
        assert!(r.is_ok());
        // run the "background thread" to quiescence
        spawn_worker_in_thread(q.worker.clone()); // resume the blocked worker
        // C08: the accepted metric must have been delivered
        assert!(calls.load(Ordering::SeqCst) == 1);
    }
}
