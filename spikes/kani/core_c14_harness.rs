#[cfg(kani)]
mod verif_harness {
    use super::*;
    #[kani::proof]
    fn c14_update() {
        let st = SocketStats::default();
        let b: [u64; 4] = [kani::any(), kani::any(), kani::any(), kani::any()];
        kani::assume(b[0] < u64::MAX / 2 && b[1] < u64::MAX / 2 && b[2] < u64::MAX / 2 && b[3] < u64::MAX / 2);
        st.bytes_sent.store(b[0], Ordering::Relaxed); st.packets_sent.store(b[1], Ordering::Relaxed);
        st.bytes_dropped.store(b[2], Ordering::Relaxed); st.packets_dropped.store(b[3], Ordering::Relaxed);
        let len: usize = kani::any();
        kani::assume((len as u64) < u64::MAX / 2);
        let ok: bool = kani::any();
        let w: usize = kani::any();
        kani::assume((w as u64) < u64::MAX / 2);
        let res = if ok { Ok(w) } else { Err(io::Error::from(io::ErrorKind::WouldBlock)) };
        let r = st.update(res, len);
        let after: SinkStats = (&st).into();
        if ok {
            assert!(matches!(r, Ok(x) if x == w));
            assert!(after.bytes_sent == b[0] + w as u64 && after.packets_sent == b[1] + 1 && after.bytes_dropped == b[2] && after.packets_dropped == b[3]);
        } else {
            assert!(matches!(r, Err(ref e) if e.kind() == io::ErrorKind::WouldBlock));
            assert!(after.bytes_sent == b[0] && after.packets_sent == b[1] && after.bytes_dropped == b[2] + len as u64 && after.packets_dropped == b[3] + 1);
        }
        std::mem::forget(r);
    }
}
