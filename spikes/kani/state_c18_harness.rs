#[cfg(kani)]
mod verif_harness {
    use super::*;
    use crate::verif_shim::ghost;

    #[kani::proof]
    fn c18_set() {
        let h: SingletonHolder<u8> = SingletonHolder::new();
        ghost::reset(kani::any());        // arbitrary protocol state reached by other threads
        h.set(7);
        ghost::check_quiescent();
        if ghost::i_won() {
            // first set wins: my value is published and readable
            let g = h.get();
            assert!(g.is_some());
            assert!(*g.unwrap() == 7);
        }
    }

    #[kani::proof]
    fn c18_get() {
        let h: SingletonHolder<u8> = SingletonHolder::new();
        ghost::reset(kani::any());
        let g = h.get();
        // reads report "not set" unless COMPLETE was observed with acquire
        assert!(g.is_none() || ghost::acquired_complete());
        let _ = h.is_set();
    }
}
