use vstd::prelude::*;
verus! {

pub mod model {
use vstd::prelude::*;

// ---- trusted: std Display renderings as uninterpreted spec functions ----
pub uninterp spec fn dec_i64(v: i64) -> Seq<char>;
pub uninterp spec fn dec_u64(v: u64) -> Seq<char>;
pub uninterp spec fn dec_f64(v: f64) -> Seq<char>;

pub struct Formatter { pub buf: String }
pub struct FmtError;
pub type FmtResult = Result<(), FmtError>;

impl Formatter {
    #[verifier::external_body]
    pub fn write_char(&mut self, c: char) -> (r: FmtResult)
        ensures r.is_ok(), final(self).buf@ == old(self).buf@.push(c)
    { unimplemented!() }
}

pub trait VDisplay {
    spec fn render(&self) -> Seq<char>;
    fn fmt(&self, f: &mut Formatter) -> (r: FmtResult)
        ensures r.is_ok(), final(f).buf@ == old(f).buf@ + self.render();
}

impl VDisplay for i64 {
    open spec fn render(&self) -> Seq<char> { dec_i64(*self) }
    #[verifier::external_body]
    fn fmt(&self, f: &mut Formatter) -> (r: FmtResult) { unimplemented!() }
}
impl VDisplay for u64 {
    open spec fn render(&self) -> Seq<char> { dec_u64(*self) }
    #[verifier::external_body]
    fn fmt(&self, f: &mut Formatter) -> (r: FmtResult) { unimplemented!() }
}
impl VDisplay for f64 {
    open spec fn render(&self) -> Seq<char> { dec_f64(*self) }
    #[verifier::external_body]
    fn fmt(&self, f: &mut Formatter) -> (r: FmtResult) { unimplemented!() }
}
impl VDisplay for &str {
    open spec fn render(&self) -> Seq<char> { self@ }
    #[verifier::external_body]
    fn fmt(&self, f: &mut Formatter) -> (r: FmtResult) { unimplemented!() }
}

pub open spec fn join<T: VDisplay>(vals: Seq<T>, n: int) -> Seq<char>
    decreases n
{
    if n <= 0 { Seq::empty() }
    else if n == 1 { vals[0].render() }
    else { join(vals, n - 1) + seq![':'] + vals[n - 1].render() }
}
}

pub mod code {
use vstd::prelude::*;
use super::model::*;

#[derive(Debug, Clone, Copy)]
enum MetricType {
    Counter,
    Timer,
    Gauge,
    Meter,
    Histogram,
    Set,
    Distribution,
}

impl VDisplay for MetricType {
    closed spec fn render(&self) -> Seq<char> {
        match *self {
            MetricType::Counter => "c"@, MetricType::Timer => "ms"@, MetricType::Gauge => "g"@, MetricType::Meter => "m"@,
            MetricType::Histogram => "h"@, MetricType::Set => "s"@, MetricType::Distribution => "d"@,
        }
    }
    fn fmt(&self, f: &mut Formatter) -> (r: FmtResult) {
        match *self {
            MetricType::Counter => "c".fmt(f),
            MetricType::Timer => "ms".fmt(f),
            MetricType::Gauge => "g".fmt(f),
            MetricType::Meter => "m".fmt(f),
            MetricType::Histogram => "h".fmt(f),
            MetricType::Set => "s".fmt(f),
            MetricType::Distribution => "d".fmt(f),
        }
    }
}

pub enum MetricValue {
    Signed(i64),
    PackedSigned(Vec<i64>),
    Unsigned(u64),
    PackedUnsigned(Vec<u64>),
    Float(f64),
    PackedFloat(Vec<f64>),
}

fn write_value<T>(f: &mut Formatter, vals: &[T]) -> (r: FmtResult)
where
    T: VDisplay,
    ensures r.is_ok(), final(f).buf@ == old(f).buf@ + join(vals@, vals@.len() as int)
{
    let mut i: usize = 0;
    while i < vals.len()
        invariant i <= vals@.len(), f.buf@ == old(f).buf@ + join(vals@, i as int)
        decreases vals@.len() - i
    {
        let value = &vals[i];
        if i > 0 {
            f.write_char(':')?;
        }
        value.fmt(f)?;
        i += 1;
    }

    FmtResult::Ok(())
}

impl VDisplay for MetricValue {
    closed spec fn render(&self) -> Seq<char> {
        match self {
            MetricValue::Signed(v) => dec_i64(*v),
            MetricValue::PackedSigned(v) => join(v@, v@.len() as int),
            MetricValue::Unsigned(v) => dec_u64(*v),
            MetricValue::PackedUnsigned(v) => join(v@, v@.len() as int),
            MetricValue::Float(v) => dec_f64(*v),
            MetricValue::PackedFloat(v) => join(v@, v@.len() as int),
        }
    }
    fn fmt(&self, f: &mut Formatter) -> (r: FmtResult) {
        match self {
            MetricValue::Signed(v) => v.fmt(f),
            MetricValue::PackedSigned(v) => write_value(f, v),
            MetricValue::Unsigned(v) => v.fmt(f),
            MetricValue::PackedUnsigned(v) => write_value(f, v),
            MetricValue::Float(v) => v.fmt(f),
            MetricValue::PackedFloat(v) => write_value(f, v),
        }
    }
}
}
}
fn main() {}
