use vstd::prelude::*;
verus! {
pub open spec fn index_of(s: Seq<char>, c: char) -> int
    decreases s.len()
{
    if s.len() == 0 { 0 } else if s[0] == c { 0 } else { 1 + index_of(s.drop_first(), c) }
}
pub open spec fn free(s: Seq<char>, c: char) -> bool { forall|i: int| 0 <= i < s.len() ==> s[i] != c }

pub proof fn lemma_index_of(a: Seq<char>, c: char, b: Seq<char>)
    requires free(a, c)
    ensures index_of(a + seq![c] + b, c) == a.len()
    decreases a.len()
{
    let s = a + seq![c] + b;
    if a.len() == 0 {
        assert(s[0] == c);
    } else {
        assert(s[0] == a[0]);
        assert(s.drop_first() =~= a.drop_first() + seq![c] + b);
        assert(free(a.drop_first(), c)) by {
            assert forall|i: int| 0 <= i < a.drop_first().len() implies a.drop_first()[i] != c by { assert(a.drop_first()[i] == a[i + 1]); }
        }
        lemma_index_of(a.drop_first(), c, b);
    }
}

// split at first c
pub open spec fn head(s: Seq<char>, c: char) -> Seq<char> { s.subrange(0, index_of(s, c)) }
pub open spec fn tail(s: Seq<char>, c: char) -> Seq<char> { if index_of(s, c) < s.len() { s.subrange(index_of(s, c) + 1, s.len() as int) } else { Seq::empty() } }

pub proof fn lemma_split(a: Seq<char>, c: char, b: Seq<char>)
    requires free(a, c)
    ensures head(a + seq![c] + b, c) =~= a, tail(a + seq![c] + b, c) =~= b
{
    lemma_index_of(a, c, b);
}

// name : vals | type  (mini round trip)
pub open spec fn mini_line(name: Seq<char>, vals: Seq<char>, ty: Seq<char>) -> Seq<char> { name + seq![':'] + vals + seq!['|'] + ty }
pub proof fn lemma_mini(name: Seq<char>, vals: Seq<char>, ty: Seq<char>)
    requires free(name, ':'), free(vals, '|')
    ensures head(mini_line(name, vals, ty), ':') =~= name,
            head(tail(mini_line(name, vals, ty), ':'), '|') =~= vals,
            tail(tail(mini_line(name, vals, ty), ':'), '|') =~= ty,
{
    let l = mini_line(name, vals, ty);
    assert(l =~= name + seq![':'] + (vals + seq!['|'] + ty));
    lemma_split(name, ':', vals + seq!['|'] + ty);
    lemma_split(vals, '|', ty);
}
}
fn main() {}
