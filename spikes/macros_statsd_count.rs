use vstd::prelude::*;

#[macro_export]
macro_rules! statsd_count {
    ($key:expr, $val:expr) => {
        $crate::statsd_count!($key, $val,)
    };

    ($key:expr, $val:expr, $($tag_key:expr => $tag_val:expr),*) => {
        $crate::_generate_impl!(count_with_tags, $key, $val, $($tag_key => $tag_val),*)
    }
}
#[macro_export]
#[doc(hidden)]
macro_rules! _generate_impl {
    ($method:ident, $key:expr, $val:expr, $($tag_key:expr => $tag_val:expr),*) => {
        use cadence::prelude::*;
        let client = $crate::get_global_default().unwrap();
        let builder = client.$method($key, $val);
        $(let builder = builder.with_tag($tag_key, $tag_val);)*
        builder.send()
    }
}

verus! {
pub mod cadence { pub mod prelude { } }

pub struct Client { pub id: int }
pub struct Builder { pub method: int, pub key: Seq<char>, pub val: int, pub tags: Seq<(Seq<char>, Seq<char>)>, pub client: int }
#[derive(Debug)]
pub struct NotSet;

pub uninterp spec fn global_set() -> bool;
pub uninterp spec fn global_id() -> int;

#[verifier::external_body]
pub fn get_global_default() -> (r: Result<Client, NotSet>)
    ensures global_set() ==> r.is_ok() && r->Ok_0.id == global_id(),
            !global_set() ==> r.is_err(),
{ unimplemented!() }

impl Client {
    #[verifier::external_body]
    pub fn count_with_tags(&self, key: &str, val: i64) -> (b: Builder)
        ensures b.method == 1, b.key == key@, b.val == val, b.tags.len() == 0, b.client == self.id
    { unimplemented!() }
}
pub uninterp spec fn expected() -> Builder;
pub open spec fn same(a: Builder, b: Builder) -> bool { a.method == b.method && a.key =~= b.key && a.val == b.val && a.tags =~= b.tags && a.client == b.client }
impl Builder {
    #[verifier::external_body]
    pub fn with_tag(self, k: &str, v: &str) -> (b: Builder)
        ensures b == (Builder { tags: self.tags.push((k@, v@)), ..self })
    { unimplemented!() }
    #[verifier::external_body]
    pub fn send(self)
        requires same(self, expected())
    { unimplemented!() }
    #[verifier::external_body]
    pub fn try_send(self) -> (r: Result<(), ()>)
        requires false
    { unimplemented!() }
}

fn use2(key: &str, v: i64, k1: &str, v1: &str, k2: &str, v2: &str)
    requires global_set(),
      expected() == (Builder { method: 1, key: key@, val: v as int, tags: seq![(k1@, v1@), (k2@, v2@)], client: global_id() })
{
    statsd_count!(key, v, k1 => v1, k2 => v2);
}
fn use0(key: &str, v: i64)
    requires global_set(),
      expected() == (Builder { method: 1, key: key@, val: v as int, tags: Seq::empty(), client: global_id() })
{
    statsd_count!(key, v);
}
}
fn main() {}
