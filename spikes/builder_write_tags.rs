use vstd::prelude::*;
verus! {

pub open spec fn tag_seq(t: (Option<&str>, &str)) -> Seq<char> {
    match t.0 { Some(k) => k@ + seq![':'] + t.1@, None => t.1@ }
}
pub open spec fn tags_seq(tags: Seq<(Option<&str>, &str)>, n: int) -> Seq<char>
    decreases n
{
    if n <= 0 { Seq::empty() }
    else if n == 1 { tag_seq(tags[0]) }
    else { tags_seq(tags, n - 1) + seq![','] + tag_seq(tags[n - 1]) }
}

struct F<'a> {
    tags: Vec<(Option<&'a str>, &'a str)>,
}

impl<'a> F<'a> {
    fn write_tags(&self, out: &mut String)
        ensures final(out)@ == old(out)@ + (if self.tags@.len() == 0 { Seq::<char>::empty() } else { "|#"@ + tags_seq(self.tags@, self.tags@.len() as int) })
    {
        if !self.tags.is_empty() {
            out.push_str("|#");
            let mut i: usize = 0;
            while i < self.tags.len()
                invariant i <= self.tags@.len(), out@ == old(out)@ + "|#"@ + tags_seq(self.tags@, i as int)
                decreases self.tags@.len() - i
            {
                let (key, value) = self.tags[i];
                if i > 0 {
                    out.push(',');
                }
                if let Some(key) = key {
                    out.push_str(key);
                    out.push(':');
                }
                out.push_str(value);
                i += 1;
            }
        }
    }
}
}
fn main() {}
