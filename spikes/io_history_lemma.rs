use vstd::prelude::*;
verus! {

// abstract writer state: metrics pending in the buffer; datagrams on the wire (each a list of metrics,
// `framed` or a single bypassed metric)
pub struct Abs {
    pub pending: Seq<Seq<u8>>,
    pub wire: Seq<Seq<Seq<u8>>>,     // datagrams, each as its list of metrics
}

pub enum Op { Write(Seq<u8>), Flush }
pub enum Out { Ok, Err }

pub open spec fn fits_empty(m: Seq<u8>, e: nat, cap: nat) -> bool { m.len() + e <= cap }
pub open spec fn bytes(ms: Seq<Seq<u8>>, e: nat) -> nat
    decreases ms.len()
{ if ms.len() == 0 { 0 } else { (bytes(ms.drop_last(), e) + ms.last().len() + e) as nat } }

/// the per-call postcondition of MultiLineWriter::write / ::flush, as a relation on abstract states
pub open spec fn step(pre: Abs, op: Op, out: Out, post: Abs, e: nat, cap: nat) -> bool {
    match (op, out) {
        (_, Out::Err) => post == pre,
        (Op::Flush, Out::Ok) => post.pending.len() == 0
            && post.wire == (if pre.pending.len() > 0 { pre.wire.push(pre.pending) } else { pre.wire }),
        (Op::Write(m), Out::Ok) =>
            if !fits_empty(m, e, cap) {
                post.pending == pre.pending && post.wire == pre.wire.push(seq![m])
            } else if bytes(pre.pending, e) + m.len() + e <= cap {
                post.wire == pre.wire && post.pending == pre.pending.push(m)
            } else {
                post.pending == seq![m]
                && post.wire == (if pre.pending.len() > 0 { pre.wire.push(pre.pending) } else { pre.wire })
            },
    }
}

pub open spec fn trace_ok(s: Seq<Abs>, ops: Seq<(Op, Out)>, e: nat, cap: nat) -> bool {
    s.len() == ops.len() + 1
    && forall|i: int| 0 <= i < ops.len() ==> step(s[i], ops[i].0, ops[i].1, s[i + 1], e, cap)
}

/// metrics acknowledged with Ok that fit the buffer, in emission order
pub open spec fn acked_fit(ops: Seq<(Op, Out)>, e: nat, cap: nat) -> Seq<Seq<u8>>
    decreases ops.len()
{
    if ops.len() == 0 { Seq::empty() } else {
        let r = acked_fit(ops.drop_last(), e, cap);
        match ops.last() {
            (Op::Write(m), Out::Ok) => if fits_empty(m, e, cap) { r.push(m) } else { r },
            _ => r,
        }
    }
}
/// metrics inside framed datagrams (datagrams that are not a single oversized metric), in wire order
pub open spec fn wire_fit(w: Seq<Seq<Seq<u8>>>, e: nat, cap: nat) -> Seq<Seq<u8>>
    decreases w.len()
{
    if w.len() == 0 { Seq::empty() } else {
        let r = wire_fit(w.drop_last(), e, cap);
        let d = w.last();
        if d.len() == 1 && !fits_empty(d[0], e, cap) { r } else { r + d }
    }
}

pub open spec fn all_fit(p: Seq<Seq<u8>>, e: nat, cap: nat) -> bool { forall|i: int| 0 <= i < p.len() ==> fits_empty(p[i], e, cap) }

pub proof fn lemma_wire_fit_push_framed(w: Seq<Seq<Seq<u8>>>, d: Seq<Seq<u8>>, e: nat, cap: nat)
    requires all_fit(d, e, cap), d.len() > 0
    ensures wire_fit(w.push(d), e, cap) == wire_fit(w, e, cap) + d
{
    assert(w.push(d).drop_last() == w);
    assert(fits_empty(d[0], e, cap));
}
pub proof fn lemma_wire_fit_push_big(w: Seq<Seq<Seq<u8>>>, m: Seq<u8>, e: nat, cap: nat)
    requires !fits_empty(m, e, cap)
    ensures wire_fit(w.push(seq![m]), e, cap) == wire_fit(w, e, cap)
{
    assert(w.push(seq![m]).drop_last() == w);
}

/// C06/C07 conservation: whatever the history and whatever the fault pattern, the metrics in framed
/// datagrams followed by the pending ones are exactly the Ok-acknowledged fitting metrics, in order, once each.
pub proof fn lemma_conservation(s: Seq<Abs>, ops: Seq<(Op, Out)>, e: nat, cap: nat)
    requires trace_ok(s, ops, e, cap), s[0].pending.len() == 0, s[0].wire.len() == 0
    ensures wire_fit(s.last().wire, e, cap) + s.last().pending == acked_fit(ops, e, cap),
            all_fit(s.last().pending, e, cap)
    decreases ops.len()
{
    if ops.len() == 0 {
        assert(wire_fit(s[0].wire, e, cap) + s[0].pending =~= Seq::<Seq<u8>>::empty());
    } else {
        let s0 = s.drop_last(); let o0 = ops.drop_last();
        assert(trace_ok(s0, o0, e, cap)) by {
            assert forall|i: int| 0 <= i < o0.len() implies step(s0[i], o0[i].0, o0[i].1, s0[i + 1], e, cap) by {
                assert(s0[i] == s[i] && s0[i + 1] == s[i + 1] && o0[i] == ops[i]);
            }
        }
        lemma_conservation(s0, o0, e, cap);
        let pre = s0.last(); let post = s.last();
        let n = ops.len() as int;
        assert(pre == s[n - 1] && post == s[n]);
        assert(step(pre, ops[n - 1].0, ops[n - 1].1, post, e, cap));
        match (ops.last().0, ops.last().1) {
            (_, Out::Err) => {}
            (Op::Flush, Out::Ok) => {
                if pre.pending.len() > 0 { lemma_wire_fit_push_framed(pre.wire, pre.pending, e, cap); }
                assert(wire_fit(post.wire, e, cap) + post.pending =~= wire_fit(pre.wire, e, cap) + pre.pending);
            }
            (Op::Write(m), Out::Ok) => {
                if !fits_empty(m, e, cap) {
                    lemma_wire_fit_push_big(pre.wire, m, e, cap);
                } else if bytes(pre.pending, e) + m.len() + e <= cap {
                    assert(wire_fit(post.wire, e, cap) + post.pending =~= (wire_fit(pre.wire, e, cap) + pre.pending).push(m));
                } else {
                    if pre.pending.len() > 0 { lemma_wire_fit_push_framed(pre.wire, pre.pending, e, cap); }
                    assert(wire_fit(post.wire, e, cap) + post.pending =~= (wire_fit(pre.wire, e, cap) + pre.pending).push(m));
                }
            }
        }
    }
}
}
fn main() {}
