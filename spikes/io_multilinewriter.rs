use vstd::prelude::*;
verus! {

pub mod model {
use vstd::prelude::*;
pub struct IoError { pub id: int }
pub type IoResult<T> = Result<T, IoError>;

pub open spec fn flat(chunks: Seq<Seq<u8>>) -> Seq<u8>
    decreases chunks.len()
{
    if chunks.len() == 0 { Seq::empty() } else { flat(chunks.drop_last()) + chunks.last() }
}

pub broadcast proof fn lemma_flat_push(c: Seq<Seq<u8>>, b: Seq<u8>)
    ensures #[trigger] flat(c.push(b)) == flat(c) + b
{
    assert(c.push(b).drop_last() == c);
}
pub broadcast proof fn lemma_flat_empty(c: Seq<Seq<u8>>)
    requires c.len() == 0
    ensures #[trigger] flat(c).len() == 0
{
}

/// datagram socket: all-or-nothing writes; ghost log of accepted datagrams (as chunk lists)
pub struct Sock {
    pub log: Ghost<Seq<Seq<Seq<u8>>>>,
    pub attempts: Ghost<nat>,
    pub last_err: Ghost<Option<IoError>>,
}

impl Sock {
    #[verifier::external_body]
    pub fn write(&mut self, buf: &[u8]) -> (r: IoResult<usize>)
        ensures
            final(self).attempts@ == old(self).attempts@ + 1,
            match r {
                Ok(n) => n == buf@.len() && final(self).log@ == old(self).log@.push(seq![buf@]) && final(self).last_err@ == old(self).last_err@,
                Err(e) => final(self).log@ == old(self).log@ && final(self).last_err@ == Some(e),
            }
    { unimplemented!() }
}

pub struct BufWriter {
    pub chunks: Ghost<Seq<Seq<u8>>>,
    pub cap: Ghost<nat>,
    pub inner: Sock,
}

impl BufWriter {
    pub open spec fn len(&self) -> nat { flat(self.chunks@).len() }

    #[verifier::external_body]
    pub fn with_capacity(cap: usize, inner: Sock) -> (r: BufWriter)
        ensures r.cap@ == cap, r.chunks@.len() == 0, r.inner == inner
    { unimplemented!() }

    #[verifier::external_body]
    pub fn get_mut(&mut self) -> (r: &mut Sock)
        ensures *r == old(self).inner,
                final(self).inner == *final(r),
                final(self).chunks == old(self).chunks,
                final(self).cap == old(self).cap,
    { unimplemented!() }

    /// std::io::BufWriter::flush (flush_buf then inner.flush()==Ok for datagram adapters)
    #[verifier::external_body]
    pub fn flush(&mut self) -> (r: IoResult<()>)
        ensures
            final(self).cap == old(self).cap,
            old(self).len() == 0 ==> r.is_ok() && *final(self) == *old(self),
            old(self).len() > 0 ==> match r {
                Ok(_) => final(self).chunks@.len() == 0
                    && final(self).inner.log@ == old(self).inner.log@.push(old(self).chunks@)
                    && final(self).inner.attempts@ > old(self).inner.attempts@
                    && final(self).inner.last_err@ == old(self).inner.last_err@,
                Err(e) => final(self).chunks == old(self).chunks
                    && final(self).inner.log@ == old(self).inner.log@
                    && final(self).inner.attempts@ > old(self).inner.attempts@
                    && final(self).inner.last_err@ == Some(e),
            }
    { unimplemented!() }

    /// std::io::BufWriter::write
    #[verifier::external_body]
    pub fn write(&mut self, buf: &[u8]) -> (r: IoResult<usize>)
        ensures
            final(self).cap == old(self).cap,
            // fast path and the buffered half of the cold path
            (buf@.len() + old(self).len() <= old(self).cap@ && buf@.len() < old(self).cap@) ==>
                r == Ok::<usize, IoError>(buf@.len() as usize)
                && final(self).inner == old(self).inner
                && final(self).chunks@ == (if buf@.len() > 0 { old(self).chunks@.push(buf@) } else { old(self).chunks@ }),
    { unimplemented!() }
}

} // mod model
pub mod code {
use vstd::prelude::*;
use super::model::*;
broadcast use {lemma_flat_push, lemma_flat_empty};
struct WriterMetrics {
    inner_write: u64,
    buf_write: u64,
    flushed: u64,
}

struct MultiLineWriter {
    written: usize,
    capacity: usize,
    metrics: WriterMetrics,
    inner: BufWriter,
    line_ending: Vec<u8>,
}

pub open spec fn well_framed(chunks: Seq<Seq<u8>>, ending: Seq<u8>) -> bool {
    chunks.len() % 2 == 0
    && forall|i: int| 0 <= i < chunks.len() && i % 2 == 1 ==> chunks[i] == ending
}

impl MultiLineWriter {
    spec fn counters_ok(&self) -> bool {
        self.metrics.inner_write < u64::MAX && self.metrics.buf_write < u64::MAX && self.metrics.flushed < u64::MAX
    }
    spec fn inv(&self) -> bool {
        &&& self.inner.cap@ == self.capacity
        &&& self.line_ending@.len() > 0
        &&& well_framed(self.inner.chunks@, self.line_ending@)
        &&& self.written == self.inner.len()
        &&& self.written <= self.capacity
    }

    fn write(&mut self, buf: &[u8]) -> (r: IoResult<usize>)
        requires old(self).inv(), old(self).counters_ok(), buf@.len() + old(self).line_ending@.len() <= usize::MAX, buf@.len() > 0,
        ensures final(self).inv(),
            final(self).capacity == old(self).capacity, final(self).line_ending == old(self).line_ending,
            match r {
                Ok(n) => n == buf@.len() && (
                    if buf@.len() + old(self).line_ending@.len() > old(self).capacity {
                        // bypass: sent alone, unmodified, no terminator; buffer untouched
                        final(self).inner.chunks == old(self).inner.chunks
                        && final(self).inner.inner.log@ == old(self).inner.inner.log@.push(seq![buf@])
                    } else if old(self).capacity - old(self).written >= buf@.len() + old(self).line_ending@.len() {
                        // fits: no socket activity at all
                        final(self).inner.inner == old(self).inner.inner
                        && final(self).inner.chunks@ == old(self).inner.chunks@.push(buf@).push(old(self).line_ending@)
                    } else {
                        // must flush first: exactly the old buffer leaves as one datagram
                        final(self).inner.inner.log@ == (if old(self).written > 0 { old(self).inner.inner.log@.push(old(self).inner.chunks@) } else { old(self).inner.inner.log@ })
                        && final(self).inner.chunks@ =~= Seq::<Seq<u8>>::empty().push(buf@).push(old(self).line_ending@)
                    }),
                Err(e) => final(self).inner.chunks == old(self).inner.chunks && final(self).written == old(self).written
                    && final(self).inner.inner.log@ == old(self).inner.inner.log@
                    && final(self).inner.inner.last_err@ == Some(e),
            }
    {
        let left = self.capacity - self.written;
        let required = buf.len() + self.line_ending.len();

        if required > self.capacity {
            self.metrics.inner_write += 1;
            Ok(self.inner.get_mut().write(buf)?)
        } else {
            if left < required {
                self.flush()?;
            }

            self.metrics.buf_write += 1;
            let write1 = self.inner.write(buf)?;
            self.written += write1;

            let write2 = self.inner.write(&self.line_ending)?;
            self.written += write2;

            Ok(write1)
        }
    }

    fn flush(&mut self) -> (r: IoResult<()>)
        requires old(self).inv(), old(self).metrics.flushed < u64::MAX
        ensures final(self).inv(),
            final(self).metrics.inner_write == old(self).metrics.inner_write, final(self).metrics.buf_write == old(self).metrics.buf_write,
            final(self).capacity == old(self).capacity, final(self).line_ending == old(self).line_ending,
            match r {
                Ok(_) => final(self).written == 0 && final(self).inner.chunks@.len() == 0
                    && final(self).inner.inner.log@ == (if old(self).written > 0 { old(self).inner.inner.log@.push(old(self).inner.chunks@) } else { old(self).inner.inner.log@ }),
                Err(e) => final(self).inner.chunks == old(self).inner.chunks && final(self).inner.inner.log@ == old(self).inner.inner.log@
                    && final(self).written == old(self).written && final(self).inner.inner.last_err@ == Some(e),
            }
    {
        self.metrics.flushed += 1;
        self.inner.flush()?;
        self.written = 0;
        Ok(())
    }
}

} // mod code
}
fn main() {}
